"""C17 — cpu_count is the minimum of all applicable limits and at least 1 (E2, model M7)."""
import io
import math
import sys
import types
import warnings
from fractions import Fraction

from ..e2 import E2Prop

V2 = "/sys/fs/cgroup/cpu.max"
V1Q = "/sys/fs/cgroup/cpu/cpu.cfs_quota_us"
V1P = "/sys/fs/cgroup/cpu/cpu.cfs_period_us"


def _ctxmod():
    import loky.backend.context as m
    return m


class _FakePsutil(types.ModuleType):
    class Process:           # no cpu_affinity attribute: falls through to os_cpu_count
        pass


def call_real(case):
    """run the real cpu_count() for every call of the case, environment substituted"""
    m = _ctxmod()
    cache = case["cache"]
    saved = {k: getattr(m, k) for k in ("os", "physical_cores_cache", "_count_physical_cores_linux", "traceback")}
    had_open = "open" in m.__dict__
    saved_psutil = sys.modules.get("psutil")
    outs = []
    try:
        m.physical_cores_cache = None if cache == "empty" else ("not found" if cache == "nf" else int(cache))
        m.traceback = types.SimpleNamespace(print_tb=lambda *a, **k: None)
        sys.modules["psutil"] = _FakePsutil("psutil")
        for call in case["calls"]:
            files = {}
            cg = call["cg"]
            if cg in ("v2", "both"):
                files[V2] = f"{call['q']} {call['p']}\n"
            if cg in ("v1", "both"):
                files[V1Q] = f"{call['q']}\n"
                files[V1P] = f"{call['p']}\n"
            if cg == "v1-quota-only":
                files[V1Q] = f"{call['q']}\n"
            env = {}
            if call["env"] != "absent":
                env["LOKY_MAX_CPU_COUNT"] = call["env"]
            fos = types.SimpleNamespace()
            fos.cpu_count = lambda c=call: None if c["os"] == "none" else int(c["os"])
            fos.environ = env
            fos.path = types.SimpleNamespace(exists=lambda p, f=files: p in f)
            if call["aff"] == "none":
                def ga(pid):
                    raise NotImplementedError
            else:
                def ga(pid, n=int(call["aff"])):
                    return set(range(n))
            fos.sched_getaffinity = ga
            m.os = fos
            m.open = lambda p, *a, f=files, **k: io.StringIO(f[p])

            def probe(c=call):
                if c["probe"] == "raises":
                    raise OSError("probe failed")
                return int(c["probe"])
            m._count_physical_cores_linux = probe
            with warnings.catch_warnings(record=True) as ws:
                warnings.simplefilter("always")
                try:
                    v = m.cpu_count(only_physical_cores=bool(call["phys"]))
                    v = str(v)
                except ValueError:
                    v = "ValueError"
            nwarn = sum(1 for w in ws if "number of physical cores" in str(w.message))
            c = m.physical_cores_cache
            outs.append(f"{v} {nwarn} " + ("empty" if c is None else "nf" if c == "not found" else str(c)))
    finally:
        for k, v in saved.items():
            setattr(m, k, v)
        if not had_open:
            m.__dict__.pop("open", None)
        if saved_psutil is not None:
            sys.modules["psutil"] = saved_psutil
        else:
            sys.modules.pop("psutil", None)
    return outs


def parse_env(s):
    try:
        return int(s)
    except ValueError:
        return None


def reference(call):
    """the statement of C17, literally: max(1, min(OS, affinity, ceil(q/p) if positive quota, override))"""
    osn = 1 if call["os"] in ("none", "0") else int(call["os"])
    terms = [osn]
    if call["aff"] != "none":
        terms.append(int(call["aff"]))
    cg = call["cg"]
    if cg in ("v2", "v1", "both") and call["q"] != "max":
        q, p = int(call["q"]), int(call["p"])
        if q > 0 and p > 0:
            terms.append(math.ceil(Fraction(q, p)))
    if call["env"] != "absent":
        terms.append(parse_env(call["env"]))
    return max(1, min(terms)), min(terms[1:], default=osn) < osn


class Prop(E2Prop):
    id = "C17"
    lean_modules = ["LokyModel.Props.C17", "LokyModel.Props.C17More"]
    driver = "cpucount_driver"
    n_cases = {"quick": 30000, "thorough": 600000}
    search_cases = {"quick": 30000, "thorough": 300000}
    rule = ("cases = sequences of 1-4 cpu_count() calls sharing the physical-core cache; every call draws "
            "OS count, affinity, cgroup layout (v2/v1/both/partial/absent), quota/period (boundary-biased: "
            "k*p-1, k*p, k*p+1, max, -1, 0), override (absent/0/negative/huge/malformed), only_physical, probe "
            "outcome. Non-trivial = at least one call where a limit other than the OS count decides, or the "
            "physical-core path is taken, or an error is raised. Distinct by full input.")
    assumptions = [
        "math.ceil(q/p) in binary64 equals the exact ceiling for quota < 2^46 and period <= 10^7 (model uses the exact integer ceiling; generator stays in that range)",
        "cgroup files contain what the kernel writes: integers or 'max' (content rejected by int() is not generated)",
        "Linux code path only (sys.platform == 'linux')",
    ]

    def corpus(self):
        base = dict(os="8", aff="8", cg="absent", q="max", p="100000", env="absent", phys=0, probe="4")
        cs = []

        def add(cache="empty", **kw):
            cs.append({"cache": cache, "calls": [dict(base, **kw)]})
        add()
        add(os="none"); add(os="0"); add(os="1")
        add(aff="none"); add(aff="3"); add(aff="0"); add(aff="64")
        for cg in ("v2", "v1", "both"):
            for q, p in (("max", "100000"), ("-1", "100000"), ("0", "100000"), ("250000", "100000"),
                         ("200000", "100000"), ("200001", "100000"), ("199999", "100000"), ("1", "100000"),
                         ("100000", "0"), ("100000", "-5"), ("5000000", "100000")):
                add(cg=cg, q=q, p=p)
        add(cg="v1-quota-only", q="100000", p="100000")
        for e in ("0", "-2", "1", "4", "8", "9", "100000", "abc", "", "4.5"):
            add(env=e)
        for cache in ("empty", "nf", "4", "16"):
            for probe in ("4", "0", "-1", "raises", "8", "32"):
                add(cache=cache, phys=1, probe=probe)
                add(cache=cache, phys=1, probe=probe, env="4")
                add(cache=cache, phys=1, probe=probe, aff="2")
                add(cache=cache, phys=1, probe=probe, env="8")
        cs.append({"cache": "empty", "calls": [dict(base, phys=1, probe="raises")] * 3})
        cs.append({"cache": "empty", "calls": [dict(base, phys=1, probe="0"), dict(base, phys=1, probe="4")]})
        cs.append({"cache": "empty", "calls": [dict(base, phys=1, env="2", probe="raises"), dict(base, phys=1, probe="raises"),
                                               dict(base, phys=1, probe="raises")]})
        return cs

    def gen_call(self, rng):
        r = rng.random
        os_ = rng.choice(["none", "0", "1", "2", "4", "8", "16", "64", "256", str(rng.randint(1, 4096))])
        osn = 1 if os_ in ("none", "0") else int(os_)
        aff = rng.choice(["none", str(osn), str(max(1, osn // 2)), str(rng.randint(0, osn + 2)), str(osn)])
        cg = rng.choice(["absent", "absent", "v2", "v2", "v1", "v1", "both", "v1-quota-only"])
        p = rng.choice([100000, 100000, 1000, 1, 1000000, rng.randint(1, 10**7), 0, -rng.randint(1, 10**5)])
        k = rng.choice([1, 2, osn, osn + 1, max(1, osn - 1), rng.randint(1, 5000)])
        q = rng.choice(["max", -1, 0, k * p, k * p + 1, k * p - 1, k * p + p // 2, rng.randint(1, 2**46)])
        env = "absent" if r() < 0.45 else rng.choice(
            ["0", "-1", "1", str(osn), str(osn + 1), str(max(0, osn - 1)), str(rng.randint(-5, 5000)), "100000000",
             ] + (["abc", "", "3.0"] if r() < 0.25 else []))
        phys = 1 if r() < 0.4 else 0
        probe = rng.choice(["raises", "0", "-3", str(max(1, osn // 2)), str(osn), str(rng.randint(1, 128))])
        return dict(os=os_, aff=aff, cg=cg, q=str(q), p=str(p), env=env, phys=phys, probe=probe)

    def gen(self, rng, i):
        n = rng.choice([1, 1, 2, 3, 4])
        cache = rng.choice(["empty", "empty", "empty", "nf", str(rng.randint(1, 64))])
        return {"cache": cache, "calls": [self.gen_call(rng) for _ in range(n)]}

    def model_lines(self, case):
        # the cache is threaded by the harness from the model's own previous answer
        return [self._line(c, None) for c in case["calls"]]

    @staticmethod
    def _cg(c):
        cg = c["cg"]
        return {"both": "v2", "v1-quota-only": "absent"}.get(cg, cg)

    def _line(self, c, cache):
        env = c["env"]
        if env != "absent" and parse_env(env) is None:
            env = "bad"
        return f"cpu {c['os']} {c['aff']} {self._cg(c)} {c['q']} {c['p']} {env} {c['phys']} @CACHE@ {c['probe']}"

    def _run_model(self, cases, corr):
        # calls of one case are chained through the cache: run the driver round by round
        from .. import common as C
        drv = C.Driver(self.driver)
        try:
            drv.ensure()
        except C.Infra as e:
            corr.model_error = str(e)
            return None
        caches = [c["cache"] for c in cases]
        outs = [[] for _ in cases]
        for rnd in range(max(len(c["calls"]) for c in cases)):
            idx = [i for i, c in enumerate(cases) if len(c["calls"]) > rnd]
            lines = [self._line(cases[i]["calls"][rnd], None).replace("@CACHE@", caches[i]) for i in idx]
            res = drv.run(lines)
            for i, o in zip(idx, res):
                outs[i].append(o)
                caches[i] = o.split(" ")[-1]
        return outs

    def impl(self, case):
        return call_real(case)

    def oracle(self, case, out):
        """statement-level oracle, independent of the Lean model"""
        cache = case["cache"]
        warned_total = 0
        for call, o in zip(case["calls"], out):
            parts = o.split(" ")
            v, nwarn = parts[0], int(parts[1])
            warned_total += nwarn
            if call["env"] != "absent" and parse_env(call["env"]) is None:
                if v != "ValueError":
                    return f"malformed override accepted: {o}"
                continue
            if v == "ValueError":
                return "ValueError on a well-formed configuration"
            v = int(v)
            logical, limited = reference(call)
            if not call["phys"]:
                if v != logical:
                    return f"cpu_count()={v}, statement says {logical}"
                if nwarn:
                    return "warning without only_physical_cores"
            elif limited:
                if v != logical:
                    return f"cpu_count(only_physical_cores=True)={v} with a user limit below the OS count, expected {logical}"
            else:
                # detected number of physical cores (cached or fresh), else logical + warning once
                if cache not in ("empty", "nf"):
                    exp = int(cache)
                elif cache == "nf":
                    exp = logical
                else:
                    pr = call["probe"]
                    if pr != "raises" and int(pr) >= 1:
                        exp, cache = int(pr), pr
                    else:
                        exp, cache = logical, "nf"
                        if nwarn != 1:
                            return f"detection failed for the first time but {nwarn} warnings"
                        nwarn = 0
                if v != exp:
                    return f"cpu_count(only_physical_cores=True)={v}, expected {exp}"
                if nwarn:
                    return "warning although detection did not fail for the first time"
            if v < 1 and not (call["phys"] and not limited):
                return f"cpu_count() = {v} < 1"
        if warned_total > 1:
            return f"{warned_total} warnings in one sequence"
        return None

    def nontrivial(self, case, out):
        for call, o in zip(case["calls"], out):
            if o.startswith("ValueError") or call["phys"]:
                return True
            osn = 1 if call["os"] in ("none", "0") else int(call["os"])
            if not o.startswith(str(osn) + " "):
                return True
        return False

    def classify(self, case, out):
        ks = [f"calls={len(case['calls'])}", "cache0=" + ("n" if case["cache"] not in ("empty", "nf") else case["cache"])]
        for call, o in zip(case["calls"], out):
            ks.append("cg=" + call["cg"])
            ks.append("phys" if call["phys"] else "logical")
            if o.startswith("ValueError"):
                ks.append("ValueError")
            if o.split(" ")[1] != "0":
                ks.append("warned")
            if call["q"] not in ("max",) and call["cg"] in ("v1", "v2", "both") and int(call["q"]) > 0 and int(call["p"]) > 0:
                ks.append("quota-active")
        return ks

    def shrink_candidates(self, case):
        calls = case["calls"]
        if len(calls) > 1:
            for i in range(len(calls)):
                yield {"cache": case["cache"], "calls": calls[:i] + calls[i + 1:]}
        base = dict(os="8", aff="8", cg="absent", q="max", p="100000", env="absent", phys=0, probe="4")
        for i, c in enumerate(calls):
            for k, v in base.items():
                if c[k] != v:
                    yield {"cache": case["cache"], "calls": calls[:i] + [dict(c, **{k: v})] + calls[i + 1:]}


PROP = Prop()
