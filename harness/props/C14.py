"""C14 — synchronisation primitives keep their contracts under every interleaving.

Three parts (DESIGN.md §5 C14):
  semlock (E2)  real loky Lock/RLock/Semaphore/BoundedSemaphore (kernel semaphores, main thread + one helper
                thread, only non-blocking / zero-timeout calls) and the simulated `SimSemLock` of engine E1, both
                against the Lean model `LokyModel.SemLock` on random operation sequences;
  cond    (E1)  the real `Condition` / `Event` methods (current text of loky/backend/synchronize.py executed over
                simulated semaphores) run by 1-4 actor threads under a deterministic scheduler, in lock-step with
                `LokyModel.Cond.step`: operation label, enabled (thread, variant) set and observable state are
                compared after every step; a statement-level oracle judges the implementation run on its own;
  xproc   (E3)  Lock / Semaphore / Condition / Event pickled to real LokyProcess children act on the same kernel object.
"""
import json
import os
import pickle
import select
import threading
import queue as _queue

from .. import common as C
from .. import c14sim
from ..composite import Composite
from ..e2 import E2Prop

_HERE = os.path.dirname(os.path.abspath(__file__))
CORPUS_FILE = os.path.join(_HERE, "C14_corpus.json")


def _sync():
    import importlib
    return importlib.import_module("loky.backend.synchronize")


# =============================================================================================== part semlock (E2)

class _Helper:
    """a second thread that lives for one case (thread identity matters to SemLock ownership)"""

    def __init__(self):
        self.q, self.r = _queue.Queue(), _queue.Queue()
        self.th = threading.Thread(target=self._main, daemon=True)
        self.th.start()

    def _main(self):
        while True:
            f = self.q.get()
            if f is None:
                return
            try:
                self.r.put(("ok", f()))
            except BaseException as e:      # noqa: BLE001 - reported to the caller
                self.r.put(("exc", e))

    def call(self, f):
        self.q.put(f)
        try:
            k, v = self.r.get(timeout=30)
        except _queue.Empty:
            raise C.Infra("semlock helper thread did not answer in 30 s")
        if k == "exc":
            raise v
        return v

    def stop(self):
        self.q.put(None)
        self.th.join(5)


def _semlock_trace(mk, ops):
    """run ops on a fresh object; token per op `<res>:<value>:<count>:<mine0><mine1>`"""
    obj = mk()
    sl = obj._semlock if hasattr(obj, "_semlock") else obj
    h = _Helper()
    toks = []
    try:
        for op in ops:
            kind, who = op[0], int(op[1])

            def do():
                try:
                    if kind == "a":
                        return "T" if obj.acquire(False) else "F"
                    if kind == "t":
                        return "T" if obj.acquire(True, 0) else "F"
                    obj.release()
                    return "ok"
                except ValueError as e:
                    return "VE" if "released too many times" in str(e) else "EXC:" + str(e)[:30]
                except AssertionError as e:
                    return "AE" if "not owned by thread" in str(e) else "EXC:" + str(e)[:30]
            res = do() if who == 0 else h.call(do)
            m0 = sl._is_mine()
            m1 = h.call(sl._is_mine)
            toks.append(f"{res}:{sl._get_value()}:{sl._count()}:{int(m0)}{int(m1)}")
    finally:
        h.stop()
    return " ".join(toks) if toks else "-"


class SemLockPart(E2Prop):
    id = "C14"
    name = "semlock"
    engine = "E2"
    lean_modules = ["LokyModel.Props.C14"]
    driver = "semlock_driver"
    budget = {"quick": 60, "thorough": 300}
    n_cases = {"quick": 20000, "thorough": 200000}
    search_cases = {"quick": 10000, "thorough": 100000}
    rule = ("cases = (kind in Lock/RLock/Semaphore(n)/BoundedSemaphore(n), n in 0..3, 0-14 operations drawn from "
            "acquire(False), acquire(True,0), release() by the main thread or one helper thread); every case is run on "
            "the real loky object (real kernel semaphore) AND on the simulated SemLock of engine E1, both compared "
            "token by token (result, kernel value, _count(), _is_mine() per thread) with the Lean model. "
            "Non-trivial = at least one failed acquire, re-entrant acquire or rejected release. Distinct by input.")
    assumptions = [
        "only non-blocking / zero-timeout acquisitions are compared with real kernel semaphores (a blocking acquire "
        "is modelled as 'enabled iff it would succeed'); thread identity = CPython thread ident",
    ]

    def corpus(self):
        cs = []
        for kind in ("lock", "rlock", "sem", "bsem"):
            for n in (0, 1, 2):
                if kind in ("lock", "rlock") and n != 1:
                    continue
                for ops in (["r0"], ["a0", "a0", "r0", "r0", "r0"], ["a0", "a1", "r1", "r0", "r0"],
                            ["a0", "r1", "a1", "r0"], ["t0", "t1", "r0", "t1", "r1", "r1"],
                            ["r0", "r0", "a0", "a0", "a0", "a1"], ["a1", "a1", "a0", "r0", "r1", "r1", "r1"], []):
                    cs.append({"kind": kind, "n": n, "ops": ops})
        return cs

    def gen(self, rng, i):
        kind = rng.choice(["lock", "rlock", "rlock", "sem", "bsem", "bsem"])
        n = 1 if kind in ("lock", "rlock") else rng.choice([0, 1, 1, 2, 3])
        ln = rng.choice([0, 1, 2, 3, 4, 5, 6, 8, 10, 14])
        ops = []
        for _ in range(ln):
            who = "0" if rng.random() < 0.6 else "1"
            ops.append(rng.choice(["a", "a", "t", "r", "r"]) + who)
        return {"kind": kind, "n": n, "ops": ops}

    def model_lines(self, case):
        line = f"sl {case['kind']} {case['n']} " + " ".join(case["ops"])
        return [line.strip(), line.strip()]

    def impl(self, case):
        sy = _sync()
        kind, n = case["kind"], case["n"]
        real = {"lock": sy.Lock, "rlock": sy.RLock, "sem": lambda: sy.Semaphore(n),
                "bsem": lambda: sy.BoundedSemaphore(n)}[kind]
        S = c14sim.SimSemLock
        sim = {"lock": lambda: S(1, 1, 1, "x", False), "rlock": lambda: S(0, 1, 1, "x", False),
               "sem": lambda: S(1, n, S.SEM_VALUE_MAX, "x", False), "bsem": lambda: S(1, n, n, "x", False)}[kind]
        return [_semlock_trace(real, case["ops"]), _semlock_trace(sim, case["ops"])]

    def oracle(self, case, out):
        """reference semantics written from the statement: a counting semaphore with n permits; RLock = mutex with
        an owner and a depth.  Judges the real object's trace (out[0])."""
        kind, n = case["kind"], case["n"]
        if out[0] == "-":
            return None
        toks = out[0].split(" ")
        if len(toks) != len(case["ops"]):
            return "trace length differs"
        permits = 1 if kind in ("lock", "rlock") else n
        holders = 0            # successful acquires minus successful releases
        owner, depth = None, 0  # rlock
        for op, tok in zip(case["ops"], toks):
            res = tok.split(":")[0]
            who = int(op[1])
            if res.startswith("EXC"):
                return f"unexpected exception {res}"
            if op[0] in "at":
                if kind == "rlock":
                    exp = "T" if (owner is None or owner == who) else "F"
                    if res != exp:
                        return f"RLock acquire by thread {who} gave {res}, owner={owner} depth={depth}"
                    if res == "T":
                        owner, depth = who, depth + 1
                else:
                    exp = "T" if holders < permits else "F"
                    if res != exp:
                        return f"{kind}({n}) acquire gave {res} with {holders} holders"
                    if res == "T":
                        holders += 1
                        if holders > permits:
                            return f"{holders} holders on {kind}({n})"
            else:
                if kind == "rlock":
                    exp = "ok" if (owner == who and depth > 0) else "AE"
                    if res != exp:
                        return f"RLock release by thread {who} gave {res}, owner={owner} depth={depth}"
                    if res == "ok":
                        depth -= 1
                        if depth == 0:
                            owner = None
                elif kind in ("lock", "bsem"):
                    exp = "ok" if holders > 0 else "VE"
                    if res != exp:
                        return f"{kind}({n}) release gave {res} with {holders} holders (over-release must be refused)"
                    if res == "ok":
                        holders -= 1
                else:
                    if res != "ok":
                        return f"Semaphore release gave {res}"
                    holders -= 1
        return None

    def nontrivial(self, case, out):
        return any(t.startswith(("F:", "VE:", "AE:")) for t in out[0].split(" ")) or \
            (case["kind"] == "rlock" and ":2:" in out[0])

    def classify(self, case, out):
        ks = ["kind=" + case["kind"], "len=%d" % min(len(case["ops"]), 10)]
        for t in out[0].split(" "):
            r = t.split(":")[0]
            if r in ("F", "VE", "AE"):
                ks.append("res=" + r)
        if out[0] != out[1]:
            ks.append("sim-differs-from-real")
        return ks

    def shrink_candidates(self, case):
        ops = case["ops"]
        for i in range(len(ops)):
            yield dict(case, ops=ops[:i] + ops[i + 1:])


# =============================================================================================== part cond (E1)

def _kill_session(sid):
    """kill every process of session `sid` except resource trackers (they clean up the semaphores and exit on EOF)"""
    for d in os.listdir("/proc"):
        if not d.isdigit():
            continue
        try:
            with open(f"/proc/{d}/stat") as f:
                st = f.read()
            fields = st[st.rindex(")") + 2:].split(" ")
            if int(fields[3]) != sid:
                continue
            with open(f"/proc/{d}/cmdline", "rb") as f:
                cmd = f.read()
            if b"resource_tracker" in cmd:
                continue
            os.kill(int(d), 9)
        except (OSError, ValueError):
            continue


def _forked(fn, arg, deadline=90, session=False):
    """run fn(arg) in a forked child (fresh threads, gc disabled there), return its pickled result; with
    `session` the child leads a new session so that it and everything it started can be killed at the deadline"""
    r, w = os.pipe()
    pid = os.fork()
    if pid == 0:
        try:
            os.close(r)
            if session:
                os.setsid()
            try:
                data = pickle.dumps(("ok", fn(arg)))
            except BaseException:      # noqa: BLE001
                import traceback
                data = pickle.dumps(("exc", traceback.format_exc()[-600:]))
            with os.fdopen(w, "wb") as f:
                f.write(data)
        finally:
            os._exit(0)
    os.close(w)
    buf = b""
    ok = True
    while True:
        rl, _, _ = select.select([r], [], [], deadline)
        if not rl:
            ok = False
            break
        b = os.read(r, 1 << 16)
        if not b:
            break
        buf += b
    os.close(r)
    if not ok:
        if session:
            _kill_session(pid)
        try:
            os.kill(pid, 9)
        except OSError:
            pass
    os.waitpid(pid, 0)
    if not ok or not buf:
        return ("exc", "run did not finish within %d s" % deadline)
    return pickle.loads(buf)


def _run_case(case):
    return c14sim.run_case(C.REPO, case)


COND_BLOCKS = [
    ["acq", "wait", "rel"], ["acq", "waitT", "rel"], ["acq", "waitT", "rel"], ["acq", "notify", "rel"],
    ["acq", "notify", "rel"], ["acq", "notify_all", "rel"], ["acq", "acq", "waitT", "rel", "rel"],
    ["acq", "acq", "wait", "rel", "rel"], ["acq", "notify", "notify", "rel"], ["acq", "notify_all", "notify", "rel"],
    ["wait"], ["notify"], ["notify_all"], ["rel"], ["try", "notify", "rel"], ["try", "waitT", "rel"],
    ["acq", "try", "rel", "rel"], ["acq", "waitT", "waitT", "rel"], ["acq", "acq", "notify_all", "rel", "rel"],
]
EVENT_OPS = ["set", "clear", "ewait", "ewaitT", "ewaitT", "is_set"]
MIXED_OPS = ["acq", "try", "rel", "wait", "waitT", "notify", "notify_all"]


def _sleep_intervals(out):
    """per thread: [registered_step, exit_step or None, exit_variant] from the kernel-level operation log"""
    iv = {}
    for step, i, lab, v in out["oplog"]:
        if lab == "rel(sleeping)":
            iv.setdefault(i, []).append([step, None, None])
        elif lab in ("acq(waitsem)", "acq(waitsem,T)"):
            if i in iv and iv[i] and iv[i][-1][1] is None:
                iv[i][-1][1], iv[i][-1][2] = step, v
    return iv


def cond_violations(case, out):
    """statement-level oracle on one run of the real code; list of (clause, text, attributable_to_D8)"""
    bad = []
    if out.get("actor_exc"):
        bad.append(("no-exception", f"an actor died: {out['actor_exc']}", False))
    if out["end"] in ("hang", "maxsteps"):
        bad.append(("terminates", f"run ended with {out['end']}", False))
    calls = {}
    for e in out["events"]:
        if e[0] == "begin":
            _, step, i, k, op, depth = e
            calls[(i, k)] = {"i": i, "op": op, "b": step, "r": None, "code": None, "depth": depth, "extra": {}}
        else:
            _, step, i, k, op, code, extra = e
            calls[(i, k)].update(r=step, code=code, extra=extra)
    oplog = out["oplog"]
    INF = 10 ** 9
    if out.get("claims_bad"):
        bad.append(("mutual-exclusion", f"threads {out['claims_bad'][1]} hold the condition's lock together "
                                        f"at step {out['claims_bad'][0]}", False))
    iv = _sleep_intervals(out)
    takes = [(s, i) for s, i, lab, v in oplog if lab in ("acq(waitsem)", "acq(waitsem,T)") and v == "ok"]
    notif = [c for c in calls.values() if c["op"] in ("notify", "notify_all", "set") and c["code"] != "MA"]
    for c in calls.values():
        op, code = c["op"], c["code"]
        if code is None:
            continue
        if code == "TRIP":
            bad.append(("no-assertion", f"internal assertion failed in {op} of thread {c['i']}", False))
        elif code in ("NO", "VE") and op != "rel":
            bad.append(("no-assertion", f"{op} of thread {c['i']} raised a release error ({code})", False))
        elif code == "MA" and (op not in ("wait", "waitT", "notify", "notify_all") or c["depth"] > 0):
            bad.append(("no-assertion", f"{op} of thread {c['i']} raised 'must acquire' while holding the lock "
                                        f"(depth {c['depth']})", False))
        elif code.startswith(("EXC", "?", "AE?")):
            bad.append(("no-exception", f"{op} of thread {c['i']} ended with {code}", False))
        if op in ("wait", "waitT") and code in ("T", "F"):
            tos = [s for s, i, lab, v in oplog if i == c["i"] and c["b"] < s <= c["r"]
                   and lab.startswith("acq(waitsem") and v == "timeout"]
            tk = [s for s, i in takes if i == c["i"] and c["b"] < s <= c["r"]]
            if code == "F" and (op == "wait" or not tos):
                bad.append(("wait-false-only-after-timeout", f"{op} of thread {c['i']} returned False without its "
                                                             "time-out having fired", False))
            if code == "T" and (tos or not tk):
                bad.append(("wait-false-only-after-timeout", f"{op} of thread {c['i']} returned True although its "
                                                             "time-out fired / it was never notified", False))
            ex = c["extra"]
            if not ex.get("mine") or ex.get("count") != ex.get("depth"):
                bad.append(("wait-returns-with-lock", f"{op} of thread {c['i']} returned with _is_mine()={ex.get('mine')} "
                                                      f"count={ex.get('count')} (depth before: {ex.get('depth')})", False))
            if code == "T" and not any(n["b"] < c["r"] and (n["r"] or INF) > c["b"] and n["i"] != c["i"] for n in notif):
                bad.append(("no-spurious-wakeup", f"{op} of thread {c['i']} returned True with no notify in progress "
                                                  "at any time during the wait", False))
        if op in ("ewait", "ewaitT", "is_set") and code in ("T", "F"):
            if (code == "T") != (c["extra"].get("flag") == 1):
                bad.append(("event-wait-iff-set", f"{op} of thread {c['i']} returned {code} with flag="
                                                  f"{c['extra'].get('flag')} at return", False))
    # who resumes per notification
    for s, i in takes:
        if not any(n["b"] < s <= (n["r"] or INF) and n["i"] != i for n in notif):
            bad.append(("notify-at-most-one", f"thread {i} took a wake-up token at step {s} outside any notify", False))
    for n in notif:
        b, r = n["b"], n["r"]
        if r is None:
            continue
        during = [i for s, i in takes if b < s <= r]
        asleep = [(j, x) for j, xs in iv.items() for x in xs if j != n["i"] and x[0] < b and (x[1] is None or x[1] > b)]
        if n["op"] == "notify":
            if len(during) > 1:
                bad.append(("notify-at-most-one", f"notify of thread {n['i']} woke {len(during)} waiters {during}", False))
            eligible = [j for j, x in asleep if not (x[1] is not None and x[1] <= r and x[2] == "timeout")]
            if eligible and n["code"] == "N" and not during:
                # delimiting predicate of D8: a _woken_count.release() during the call by a thread that did not take
                # this call's token (its time-out fired, or it was woken by an earlier call)
                d8 = False
                for s, i, lab, v in oplog:
                    if lab == "rel(woken)" and b < s <= r:
                        last = [x for x in iv.get(i, []) if x[1] is not None and x[1] < s]
                        if last and (last[-1][2] == "timeout" or last[-1][1] <= b):
                            d8 = True
                bad.append(("notify-wakes-one", f"notify of thread {n['i']} (steps {b}-{r}) returned having woken nobody "
                                                f"although threads {eligible} were asleep and not timing out", d8))
        else:
            for j, x in asleep:
                if x[1] is None or x[1] > r:
                    bad.append(("notify-all-wakes-every-sleeper", f"{n['op']} of thread {n['i']} (steps {b}-{r}) returned "
                                                                  f"while thread {j} (asleep since step {x[0]}) was not woken",
                                False))
    if out["end"] == "blocked":
        # nothing can move any more.  Waiters nobody notifies are fine; a notifier stuck waiting for a wake-up
        # announcement (`_woken_count.acquire()`) is not: the condition is unusable from here on.
        for i, lab in out.get("pending_end", []):
            if lab == "acq(woken)":
                bad.append(("never-unusable", f"deadlock: thread {i} is blocked for ever in a notifier's "
                                              "_woken_count.acquire()", False))
    if out["end"] == "quiescent":
        f = out["final"]
        if f["sleeping"] != f["woken"] or f["waitsem"] != 0 or f.get("flag", 0) not in (0, 1):
            bad.append(("never-unusable", f"at quiescence sleeping={f['sleeping']} woken={f['woken']} "
                                          f"waitsem={f['waitsem']} flag={f.get('flag')}", False))
        if not any(out["depth"]) and (f["lock"] != 1 or f["lock_count"] != 0):
            bad.append(("never-unusable", f"everybody released but lock value={f['lock']} count={f['lock_count']}", False))
    return bad


class CondPart(E2Prop):
    id = "C14"
    name = "cond"
    engine = "E1"
    lean_modules = ["LokyModel.Props.C14"]
    driver = "cond_driver"
    budget = {"quick": 150, "thorough": 1500}
    n_cases = {"quick": 6000, "thorough": 100000}
    search_cases = {"quick": 1500, "thorough": 15000}
    rule = ("cases = (lock kind, 1-4 thread scripts of <= 6 operations, schedule). Condition scripts are built from "
            "with-blocks around wait/wait(timeout)/notify/notify_all (nesting depth <= 2, misuse without the lock, "
            "try-acquire) or fully random operations; Event scripts from set/clear/wait/wait(timeout)/is_set. "
            "Schedules: a covering corpus (every reachable transition and guard outcome of the model, measured by "
            "the driver's coverage tags) + seeded random walks over the enabled (thread, variant) pairs with "
            "time-outs weighted 0.05-0.6. Each step compares operation label, enabled set and observable state "
            "(semaphore values, lock value/count, per-thread results) with LokyModel.Cond.step. "
            "Non-trivial = the run contains a time-out, a failed try/assertion, or >= 2 notifications. "
            "Distinct by (scripts, schedule).")
    assumptions = [
        "E1 switches threads only at SemLock.acquire/release calls: pure-Python statements between two such calls are atomic "
        "(true of the code under the GIL only up to bytecode preemption; none of these statements touches shared state "
        "other than through the semaphores)",
        "time is adversarial: a timed acquire may time out at any instant at which its semaphore is 0, and only then",
        "the three counting semaphores never reach SEM_VALUE_MAX",
    ]

    # ---- inputs --------------------------------------------------------------------------------
    def _corpus_data(self):
        if not hasattr(self, "_cd"):
            try:
                with open(CORPUS_FILE) as f:
                    self._cd = json.load(f)
            except OSError:
                self._cd = {"cases": [], "universe": []}
        return self._cd

    def corpus(self):
        hand = [
            # D8 witness (finding): notify absorbed by a waiter whose time-out fired
            {"kind": "rlock", "scripts": [["acq", "waitT", "rel"], ["acq", "wait", "rel"], ["acq", "notify", "rel"]],
             "sched": D8_SCHED},
        ]
        return hand + [dict(c) for c in self._corpus_data()["cases"]]

    def gen(self, rng, i):
        r = rng.random()
        n = rng.choice([1, 2, 2, 3, 3, 3, 4, 4])
        if r < 0.55:
            scripts = []
            for _ in range(n):
                s = []
                want = rng.randint(1, 6)
                while len(s) < want:
                    s += rng.choice(COND_BLOCKS)
                scripts.append(s[:6])
            kind = "rlock"
        elif r < 0.65:
            scripts = [[rng.choice(MIXED_OPS) for _ in range(rng.randint(1, 6))] for _ in range(n)]
            kind = "rlock"
        elif r < 0.72:
            ops = MIXED_OPS + EVENT_OPS
            scripts = [[rng.choice(ops) for _ in range(rng.randint(1, 6))] for _ in range(n)]
            kind = "rlock"
        else:
            scripts = [[rng.choice(EVENT_OPS) for _ in range(rng.randint(1, 6))] for _ in range(n)]
            kind = "lock"
        return {"kind": kind, "scripts": scripts, "seed": rng.randrange(1 << 30),
                "pt": rng.choice([0.05, 0.15, 0.3, 0.3, 0.6])}

    # ---- both sides ------------------------------------------------------------------------------
    def impl(self, case):
        k, v = _forked(_run_case, case)
        if k != "ok":
            raise C.Infra("E1 run failed: " + str(v))
        return v

    def oracle(self, case, out):
        if not isinstance(out, dict):
            return str(out)
        bad = cond_violations(case, out)
        if not bad:
            return None
        known = getattr(self, "_known", set())
        if "D8" in known and all(c == "notify-wakes-one" and d8 for c, _, d8 in bad):
            return None
        return "; ".join(f"[{c}] {t}" for c, t, _ in bad[:4])

    @staticmethod
    def cfg_line(case):
        return "cfg %s %s" % (case["kind"], ";".join(",".join(s) if s else "-" for s in case["scripts"]))

    def model_lines(self, case, sched):
        return [self.cfg_line(case)] + [f"step {t} {v}" for t, v in sched]

    def explicit(self, case, out):
        c = {"kind": case["kind"], "scripts": case["scripts"], "sched": out["sched"]}
        return c

    def evaluate(self, cases, corr, with_model=True):
        res = self._run_impl(cases)           # [(out, oracle_text)]
        model = None
        if with_model:
            drv = C.Driver(self.driver)
            try:
                drv.ensure()
                lines, spans = [], []
                for case, (out, _) in zip(cases, res):
                    ls = self.model_lines(case, out["sched"]) if isinstance(out, dict) else []
                    spans.append((len(lines), len(ls)))
                    lines += ls
                mo = drv.run(lines) if lines else []
                model = [mo[a:a + n] for a, n in spans]
            except C.Infra as e:
                corr.model_error = str(e)
        tags = set()
        known = getattr(self, "_known", set())
        for i, case in enumerate(cases):
            out, bad = res[i]
            corr.evaluations += 1
            if not isinstance(out, dict):
                raise C.Infra("E1 run failed: " + str(out)[:300])
            ex = self.explicit(case, out)
            for k in self.classify(case, out):
                corr.count(k)
            if self.nontrivial(case, out):
                corr.nontrivial(ex)
            v = cond_violations(case, out)
            if v and all(c == "notify-wakes-one" and d8 for c, _, d8 in v) and "D8" in known:
                corr.known_hits["D8"] = corr.known_hits.get("D8", 0) + 1
            if bad:
                corr.failures.append({"input": ex, "what": bad, "impl": out["lines"][-3:], "end": out["end"]})
            if model is not None:
                ml = [l.rsplit(" | ", 1) for l in model[i]]
                mlines = [p[0] for p in ml]
                for p in ml:
                    if len(p) == 2 and p[1] != "-":
                        tags.add(p[1])
                if mlines != out["lines"]:
                    k = next((j for j, (a, b) in enumerate(zip(mlines, out["lines"])) if a != b),
                             min(len(mlines), len(out["lines"])))
                    corr.disagreements.append({"input": ex, "first_diverging_step": k,
                                               "model": mlines[max(0, k - 1):k + 1], "impl": out["lines"][max(0, k - 1):k + 1]})
        corr.extra.setdefault("_tags", set()).update(tags)
        corr.extra["steps"] = corr.extra.get("steps", 0) + sum(len(o["sched"]) for o, _ in res if isinstance(o, dict))
        return res, model

    def correspondence(self, ctx, corr):
        self._known = {f["id"] for f in getattr(ctx, "known", [])}
        corr.rule = self.rule
        corpus = list(self.corpus())
        c0 = C.Corr()
        self.evaluate(corpus, c0)
        universe = set(self._corpus_data().get("universe", []))
        ctags = c0.extra.pop("_tags", set())
        rng = C.rng_for(ctx.seed, self.id, self.name, "gen")
        cases = [self.gen(rng, i) for i in range(self.n_cases[ctx.tier])]
        c1 = C.Corr()
        res, model = self.evaluate(cases, c1)
        rtags = c1.extra.pop("_tags", set())
        for c in (c0, c1):
            corr.evaluations += c.evaluations
            corr.distinct |= c.distinct
            corr.disagreements += c.disagreements
            corr.failures += c.failures
            for k, v in c.hist.items():
                corr.hist[k] = corr.hist.get(k, 0) + v
            for k, v in c.known_hits.items():
                corr.known_hits[k] = corr.known_hits.get(k, 0) + v
            corr.model_error = corr.model_error or c.model_error
        corr.extra["corpus_cases"] = len(corpus)
        corr.extra["traces_validated_against_impl"] = corr.evaluations
        corr.extra["steps_compared"] = c0.extra.get("steps", 0) + c1.extra.get("steps", 0)
        corr.extra["model_transitions_known"] = len(universe)
        corr.extra["model_transitions_covered_by_corpus"] = len(ctags & universe) if universe else len(ctags)
        corr.extra["model_transitions_covered_total"] = len((ctags | rtags) & universe) if universe else len(ctags | rtags)
        corr.extra["model_transitions_outside_known_set"] = sorted((ctags | rtags) - universe)[:10] if universe else []
        missing = sorted(universe - ctags)
        corr.extra["corpus_missing_transitions"] = missing[:10]
        for j in [0, len(cases) // 2, len(cases) - 1][:min(3, len(cases))]:
            out = res[j][0]
            corr.samples.append({"input": self.explicit(cases[j], out), "end": out["end"], "last": out["lines"][-1]})
        corr.failures = [self.shrink(f, "oracle") for f in corr.failures[:2]] + corr.failures[2:]
        corr.disagreements.sort(key=lambda d: len(json.dumps(d["input"])))

    def nontrivial(self, case, out):
        if any(v != "ok" for _, v in out["sched"]):
            return True
        n = sum(1 for s in case["scripts"] for o in s if o in ("notify", "notify_all", "set"))
        return n >= 2

    def classify(self, case, out):
        ks = ["kind=" + case["kind"], "threads=%d" % len(case["scripts"]), "end=" + out["end"]]
        vs = {v for _, v in out["sched"]}
        ks += ["variant=" + v for v in sorted(vs)]
        codes = {l.split(":")[1] for line in out["lines"][-1:] for part in line.split(" ") if part.startswith("t") and "=[" in part
                 for l in part.split("=[")[1].rstrip("]").split(",") if ":" in l}
        ks += ["ret=" + c for c in sorted(codes)]
        return ks

    def shrink(self, f, kind):
        cur = f
        for _ in range(60):
            for cand in self.shrink_candidates(cur["input"]):
                try:
                    out = self.impl(cand)
                    bad = self.oracle(cand, out)
                except Exception:      # noqa: BLE001
                    continue
                if bad:
                    cur = {"input": self.explicit(cand, out), "what": bad, "impl": out["lines"][-3:], "end": out["end"]}
                    break
            else:
                break
        return cur

    def shrink_candidates(self, case):
        scripts = case["scripts"]
        sched = case.get("sched")
        if sched:
            # truncate the schedule (the oracle may already fail on a prefix)
            for cut in (len(sched) // 2, len(sched) - 4, len(sched) - 1):
                if 0 < cut < len(sched):
                    yield dict(case, sched=sched[:cut])
            # drop a thread that never moves / an operation never begun
            used = {}
            for t, _ in sched:
                used[t] = used.get(t, 0) + 1
            for i in range(len(scripts) - 1, -1, -1):
                if i not in used and i == len(scripts) - 1:
                    yield dict(case, scripts=scripts[:i])
        # re-randomise with fewer operations (seeded walk)
        for i in range(len(scripts)):
            if scripts[i]:
                c = {"kind": case["kind"], "scripts": scripts[:i] + [scripts[i][:-1]] + scripts[i + 1:], "seed": 1}
                for sd in (1, 2, 3):
                    yield dict(c, seed=sd)

    def search(self, ctx, corr, broken):
        self._known = {f["id"] for f in getattr(ctx, "known", [])}
        cands = [d["input"] for d in corr.disagreements[:100]]
        rng = C.rng_for(ctx.seed, self.id, self.name, "search")
        more = []
        for d in corr.disagreements[:40]:
            # same scripts under many other schedules (the bug is near the diverging transition)
            for k in range(12):
                more.append({"kind": d["input"]["kind"], "scripts": d["input"]["scripts"], "seed": rng.randrange(1 << 30),
                             "pt": rng.choice([0.1, 0.3, 0.6])})
        more += [self.gen(rng, i) for i in range(self.search_cases[ctx.tier])]
        c2 = C.Corr()
        self.evaluate(cands + list(self.corpus()) + more, c2, with_model=False)
        corr.extra["search_cases"] = c2.evaluations
        if c2.failures:
            return self.shrink(c2.failures[0], "oracle")
        return None

    def replay(self, ctx, data):
        self._known = {f["id"] for f in C.load_known().get("findings", []) if f.get("property") == self.id}
        res = []
        for f in data.get("failing", []):
            out = self.impl(f["input"])
            bad = self.oracle(f["input"], out)
            res.append({"input": f["input"], "what": bad, "trace": out["lines"]})
        return {"fails": any(r["what"] for r in res), "results": res}

    def replay_finding(self, ctx, finding):
        """replay the witness schedule of a listed finding on the current code: it `fails` (= the finding still
        reproduces) iff the named clause is violated on that run"""
        w = finding.get("witness")
        if not w:
            return {"fails": False}
        out = self.impl(w)
        v = cond_violations(w, out)
        hit = [t for c, t, d8 in v if c == finding.get("clause", "notify-wakes-one")]
        return {"fails": bool(hit), "input": w, "what": hit[:1], "end": out["end"]}


D8_SCHED = [[0, "ok"]] * 5 + [[1, "ok"]] * 5 + [[2, "ok"], [2, "ok"], [2, "ok"], [2, "fail"], [2, "fail"], [2, "ok"],
                                               [0, "timeout"], [2, "ok"], [0, "ok"], [2, "ok"], [2, "ok"]]


# =============================================================================================== part xproc (E3)

def _child_event_set(ev):
    ev.set()


def _child_notify(cond, n):
    with cond:
        if n == "all":
            cond.notify_all()
        else:
            cond.notify()


def _child_waiter(cond, ready, res):
    with cond:
        ready.release()
        r = cond.wait(40)
    if r:
        res.release()


def _child_try(lock, res):
    # exit status says what happened: 10 = could not acquire, 11 = acquired (and released)
    if lock.acquire(False):
        lock.release()
        res.release()
        os._exit(11)
    os._exit(10)


def _child_release(sem):
    sem.release()


def _xproc_scenarios(which):
    """each scenario returns None or a description of how the contract was broken; deadlines -> Infra"""
    from loky.backend import get_context
    ctx = get_context("loky")
    DL = 45

    def run(target, args):
        p = ctx.Process(target=target, args=args)
        p.start()
        return p

    def kill(p):
        try:
            os.kill(p.pid, 9)
        except OSError:
            pass
        p.join(10)

    def join(p):
        p.join(DL)
        if p.is_alive():
            kill(p)
            raise C.Infra("xproc: child did not finish within %d s" % DL)
        return p.exitcode

    if which == "event":
        ev = ctx.Event()
        if ev.is_set():
            return "fresh Event is set"
        p = run(_child_event_set, (ev,))
        r = ev.wait(DL)
        join(p)
        if r is not True:
            if ev.is_set():
                return "Event.wait returned False although the event is set"
            raise C.Infra("xproc: Event.wait timed out")
        if not ev.is_set():
            return "Event set by the child is not set in the parent"
        ev.clear()
        return "Event.clear() did not clear" if ev.is_set() else None
    if which == "lock":
        lk = ctx.Lock()
        mark = ctx.Semaphore(0)
        lk.acquire()
        c1 = join(run(_child_try, (lk, mark)))
        lk.release()
        c2 = join(run(_child_try, (lk, mark)))
        if c1 != 10:
            return f"child acquired a Lock held by the parent (exit {c1})"
        if c2 != 11 or not mark.acquire(False):
            return f"child could not acquire the free Lock (exit {c2})"
        if not lk.acquire(False):
            return "Lock not released by the child"
        lk.release()
        return None
    if which == "semaphore":
        sem = ctx.BoundedSemaphore(2)
        sem.acquire()
        sem.acquire()
        if sem.acquire(False):
            return "third acquire of BoundedSemaphore(2) succeeded"
        join(run(_child_release, (sem,)))
        if not sem.acquire(False):
            return "release in the child did not reach the parent's semaphore"
        sem.release()
        sem.release()
        try:
            sem.release()
            return "over-release accepted"
        except ValueError:
            return None
    if which in ("notify", "notify_all"):
        cond = ctx.Condition()
        with cond:
            p = run(_child_notify, (cond, "all" if which == "notify_all" else 1))
            r = cond.wait(DL)
            mine = cond._lock._semlock._is_mine()
        join(p)
        if not r:
            raise C.Infra("xproc: Condition.wait timed out")
        return None if mine else "wait returned without the lock"
    if which == "child_waiters":
        cond = ctx.Condition()
        ready, res = ctx.Semaphore(0), ctx.Semaphore(0)
        ps = [run(_child_waiter, (cond, ready, res)) for _ in range(2)]
        for _ in ps:
            if not ready.acquire(True, DL):
                for p in ps:
                    kill(p)
                raise C.Infra("xproc: child waiters did not get ready")
        with cond:                # both children are inside wait() (they released `ready` under the lock)
            cond.notify_all()
        for p in ps:
            join(p)
        n = sum(1 for _ in range(2) if res.acquire(False))
        if n != 2:       # a child's own wait(60) ran out: a deadline, not an observation
            raise C.Infra(f"xproc: notify_all woke {n} of 2 child waiters within the deadline")
        return None
    raise C.Infra("unknown xproc scenario " + which)


def _xproc_guarded(which):
    try:
        return _xproc_scenarios(which)
    except C.Infra as e:
        return ("infra", str(e))


XPROC = ["event", "lock", "semaphore", "notify", "notify_all", "child_waiters"]


class XProcPart:
    id = "C14"
    name = "xproc"
    engine = "E3"
    lean_modules = []
    budget = {"quick": 120, "thorough": 300}
    assumptions = ["E3 observes real processes: every wait has a 60 s deadline; a missed deadline is an infrastructure "
                   "error (exit 2), never a violation"]
    rule = ("6 scenarios on real LokyProcess children: Event set in a child is seen by the waiting parent; a Lock held by "
            "the parent refuses the child, a free one admits it; BoundedSemaphore permits cross the process boundary and "
            "over-release is refused; notify / notify_all from a child wake the parent inside wait(), which returns "
            "holding the lock; notify_all in the parent wakes two child waiters. thorough repeats each 3 times.")

    def _run(self, which):
        # a broken protocol can dead-lock real processes for good: every scenario runs in its own session with a
        # hard deadline, after which the whole session is killed (infrastructure error, never a violation)
        k, v = _forked(_xproc_guarded, which, deadline=110, session=True)
        if k != "ok":
            raise C.Infra(f"xproc scenario {which}: {v}")
        if isinstance(v, tuple) and v[0] == "infra":
            raise C.Infra(v[1])
        return v

    def correspondence(self, ctx, corr):
        corr.rule = self.rule
        reps = 1 if ctx.tier == "quick" else 3
        for _ in range(reps):
            for w in XPROC:
                bad = self._run(w)
                corr.evaluations += 1
                corr.count("scenario=" + w)
                corr.nontrivial(w)
                if bad:
                    corr.failures.append({"input": {"scenario": w}, "what": bad})
        corr.samples.append({"scenarios": XPROC})

    def search(self, ctx, corr, broken):
        return None

    def replay(self, ctx, data):
        res = []
        for f in data.get("failing", []):
            bad = self._run(f["input"]["scenario"])
            res.append({"input": f["input"], "what": bad})
        return {"fails": any(r["what"] for r in res), "results": res}

    def replay_finding(self, ctx, finding):
        return {"fails": False}


class _C14(Composite):
    def correspondence(self, ctx, corr):
        # the E3 part runs last; a missed deadline there must not hide what the earlier parts already found
        try:
            super().correspondence(ctx, corr)
        except C.Infra as e:
            if not (corr.failures or corr.disagreements):
                raise
            C.log(f"[C14] E3 part did not complete ({e}); reporting the findings of the earlier parts")
            corr.extra["xproc_infra"] = str(e)
            corr.rule = corr.rule or "E3 part incomplete"


PROP = _C14("C14", [SemLockPart(), CondPart(), XProcPart()],
                 trusted_extra=["engine E1's scheduler and simulated SemLock (harness/c14sim.py), validated against the real "
                                "_multiprocessing.SemLock and the Lean model by part `semlock` on every run"])
