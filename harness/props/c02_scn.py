"""E3 scenario runner for the kill-tree part of C02/C06 (real processes).

    python -m harness.props.c02_scn --scenario '<json>'     one scenario, JSON report on stdout
    python -m harness.props.c02_scn --member '<json>' <label> <dir>    a tree member (internal)

A scenario builds a real process tree under a loky worker `W` (nested `LokyProcess`es, python
subprocesses, `sleep` leaves, an un-reaped zombie leaf), plus bystanders that must survive, takes
its own /proc snapshot (ppid relation, independent of psutil/pgrep), calls the real
`loky.backend.utils.kill_process_tree(W, use_psutil=...)` and reports who is still running.
Every member carries VERIF_KT_TAG in its environment and has a dead-man timer, and the scenario
sweeps /proc for the tag before it returns, so nothing survives a run.

Exit status: 0 report printed; 3 infrastructure problem (message on stderr).
"""
import json
import os
import signal
import subprocess
import sys
import time

DEADMAN = 240.0          # every member exits on its own after this many seconds
BUILD_DEADLINE = 120.0   # all members up and announced
GONE_DEADLINE = 25.0     # SIGKILLed processes must have stopped running within this (else: survivor)


class ScnInfra(Exception):
    pass


# ------------------------------------------------------------------------------- members

def _spawn_kids(spec, label, d):
    """start the children of this member; returns handles (kept alive so nothing is reaped early)"""
    handles = []
    for i, k in enumerate(spec.get("kids", [])):
        kl = f"{label}.{i}"
        kind = k["kind"]
        if kind == "loky":
            from loky.backend import get_context
            p = get_context("loky").Process(target=member_main, args=(k, kl, d))
            p.start()
            handles.append(p)
        elif kind == "sub":
            p = subprocess.Popen([sys.executable, "-m", "harness.props.c02_scn", "--member",
                                  json.dumps(k), kl, d], stdin=subprocess.DEVNULL)
            handles.append(p)
        elif kind == "sleep":
            p = subprocess.Popen(["sleep", str(int(DEADMAN))], stdin=subprocess.DEVNULL)
            _announce(d, kl, p.pid)
            handles.append(p)
        elif kind == "zombie":
            p = subprocess.Popen(["true"], stdin=subprocess.DEVNULL)
            # deliberately not waited for: stays a zombie child of this member
            t0 = time.time()
            while _state(p.pid) not in ("Z", None) and time.time() - t0 < 30:
                time.sleep(0.01)
            _announce(d, kl, p.pid)
            handles.append(p)
        else:
            raise ValueError(kind)
    return handles


def _announce(d, label, pid):
    tmp = os.path.join(d, f".{label}.tmp{os.getpid()}")
    with open(tmp, "w") as f:
        f.write(str(pid))
    os.replace(tmp, os.path.join(d, label + ".pid"))


def member_main(spec, label, d):
    handles = _spawn_kids(spec, label, d)
    _announce(d, label, os.getpid())
    t0 = time.time()
    while time.time() - t0 < DEADMAN:
        time.sleep(0.5)
    del handles
    os._exit(0)


# ------------------------------------------------------------------------------- /proc observer

def _stat(pid):
    """(state, ppid, starttime) or None"""
    try:
        with open(f"/proc/{pid}/stat", "rb") as f:
            s = f.read().decode("ascii", "replace")
    except OSError:
        return None
    r = s.rfind(")")
    rest = s[r + 2:].split()
    return rest[0], int(rest[1]), int(rest[19])


def _state(pid):
    st = _stat(pid)
    return None if st is None else st[0]


def _ppid_map():
    m = {}
    for n in os.listdir("/proc"):
        if n.isdigit():
            st = _stat(int(n))
            if st is not None:
                m[int(n)] = st
    return m


def _tagged(tag):
    out = []
    needle = ("VERIF_KT_TAG=" + tag).encode()
    for n in os.listdir("/proc"):
        if n.isdigit() and int(n) != os.getpid():
            try:
                with open(f"/proc/{n}/environ", "rb") as f:
                    if needle in f.read().split(b"\0"):
                        out.append(int(n))
            except OSError:
                pass
    return out


def labels_of(spec, label):
    yield label, spec["kind"]
    for i, k in enumerate(spec.get("kids", [])):
        yield from labels_of(k, f"{label}.{i}")


# ------------------------------------------------------------------------------- scenario

def scenario(sc):
    import tempfile
    import uuid
    import warnings
    tag = uuid.uuid4().hex
    os.environ["VERIF_KT_TAG"] = tag
    d = tempfile.mkdtemp(prefix="verif-c02-")
    from loky.backend import get_context
    import loky.backend.utils as U
    ctx = get_context("loky")
    # make sure the trackers exist *before* the tree is built, as children of the scenario
    from loky.backend.resource_tracker import _resource_tracker
    _resource_tracker.ensure_running()
    report = {}
    W = S = B = None
    try:
        wspec = dict(sc["tree"], kind="loky")
        sspec = {"kind": "loky", "kids": [{"kind": "sleep"}]}
        W = ctx.Process(target=member_main, args=(wspec, "W", d))
        W.start()
        S = ctx.Process(target=member_main, args=(sspec, "S", d))
        S.start()
        B = subprocess.Popen(["sleep", str(int(DEADMAN))], stdin=subprocess.DEVNULL)
        _announce(d, "B", B.pid)
        expected = dict(labels_of(wspec, "W"))
        expected.update(labels_of(sspec, "S"))
        expected["B"] = "sleep"
        t0 = time.time()
        while True:
            have = {f[:-4] for f in os.listdir(d) if f.endswith(".pid")}
            if set(expected) <= have:
                break
            if time.time() - t0 > BUILD_DEADLINE:
                raise ScnInfra(f"tree not up after {BUILD_DEADLINE}s: missing {sorted(set(expected) - have)}")
            if W.exitcode is not None or S.exitcode is not None:
                raise ScnInfra(f"member died while building: W={W.exitcode} S={S.exitcode}")
            time.sleep(0.02)
        pid_of = {l: int(open(os.path.join(d, l + ".pid")).read()) for l in expected}
        label_of = {p: l for l, p in pid_of.items()}
        if sc.get("pre_kill"):
            # a member dies before the call (its parent does not reap it: it stays a zombie)
            victim = pid_of[sc["pre_kill"]]
            os.kill(victim, signal.SIGKILL)
            t0 = time.time()
            while _state(victim) not in ("Z", None):
                if time.time() - t0 > GONE_DEADLINE:
                    raise ScnInfra("pre-killed member still running")
                time.sleep(0.01)
        # ---- our own snapshot of the forest -------------------------------------------
        pm = _ppid_map()
        kids = {}
        for p, (st, pp, _) in pm.items():
            kids.setdefault(pp, []).append(p)
        for v in kids.values():
            v.sort()
        tree, stack = [], [W.pid]
        while stack:
            p = stack.pop()
            tree.append(p)
            stack += kids.get(p, [])
        watched = sorted(set(tree) | set(pid_of.values()))
        start = {p: pm[p][2] for p in watched if p in pm}
        # small stable numbering: labelled pids by label order, then unlabelled tree members by pid
        names = sorted(expected) + [f"x{p}" for p in sorted(tree) if p not in label_of]
        num = {}
        for i, nme in enumerate(names):
            num[pid_of[nme] if nme in pid_of else int(nme[1:])] = i + 1
        report["names"] = {str(i + 1): n for i, n in enumerate(names)}
        report["root"] = num[W.pid]
        report["kids"] = {str(num[p]): [num[c] for c in kids.get(p, []) if c in num]
                          for p in watched if p in num and any(c in num for c in kids.get(p, []))}
        report["running0"] = sorted(num[p] for p in watched if p in pm and pm[p][0] != "Z")
        report["zombie0"] = sorted(num[p] for p in watched if p in pm and pm[p][0] == "Z")
        report["tree"] = sorted(num[p] for p in tree)

        # ---- the call under test ----------------------------------------------------------
        if not sc["have_psutil"]:
            U.psutil = None
        raised = None
        with warnings.catch_warnings(record=True) as ws:
            warnings.simplefilter("always")
            try:
                U.kill_process_tree(W, use_psutil=bool(sc["use_psutil"]))
            except Exception as e:          # noqa: BLE001
                raised = type(e).__name__
        report["raised"] = raised
        report["warned"] = int(any("Failed to kill subprocesses" in str(w.message) for w in ws))

        def running_now():
            res = []
            for p in watched:
                st = _stat(p)
                if st is not None and st[0] != "Z" and st[2] == start.get(p):
                    res.append(p)
            return res
        t0 = time.time()
        while True:
            alive = running_now()
            if not (set(alive) & set(tree)) or time.time() - t0 > GONE_DEADLINE:
                break
            time.sleep(0.02)
        report["running1"] = sorted(num[p] for p in alive)
        st = _stat(W.pid)
        report["root_reaped"] = int(st is None or st[2] != start.get(W.pid))
        report["root_exitcode"] = W._popen.returncode if W._popen is not None else None
        return report
    finally:
        # ---- nothing may survive the scenario ----------------------------------------------
        for _ in range(5):
            left = _tagged(tag)
            if not left:
                break
            for p in left:
                try:
                    os.kill(p, signal.SIGKILL)
                except OSError:
                    pass
            time.sleep(0.05)
        for h in (W, S):
            if h is not None and h._popen is not None:
                try:
                    h.join(10)
                except Exception:       # noqa: BLE001
                    pass
        if B is not None:
            try:
                B.wait(10)
            except Exception:           # noqa: BLE001
                pass
        import shutil
        shutil.rmtree(d, ignore_errors=True)


def main():
    # run under the module's importable name, so that targets pickle by reference
    from harness.props import c02_scn as M
    if sys.argv[1] == "--member":
        M.member_main(json.loads(sys.argv[2]), sys.argv[3], sys.argv[4])
        return
    sc = json.loads(sys.argv[2])
    try:
        rep = M.scenario(sc)
    except M.ScnInfra as e:
        print("INFRA " + str(e), file=sys.stderr)
        sys.stdout.flush()
        os._exit(3)
    except Exception as e:      # noqa: BLE001  -- the code under test raised outside the call under test
        import traceback
        rep = {"crash": type(e).__name__ + ": " + str(e)[:200], "where": traceback.format_exc()[-700:]}
    print("REPORT " + json.dumps(rep, sort_keys=True))
    sys.stdout.flush()
    sys.stderr.flush()
    os._exit(0)


if __name__ == "__main__":
    main()
