"""C04 — executor-protocol property: Lean theorems over M1 + E1 (real code under the deterministic scheduler,
in lock-step with M1, judged by the oracles of harness/simengine/monitors.py)."""
from ..e1 import E1Part

PROP = E1Part("C04", [("contain",3),("mixed",1),("callback",1)], ["C04","C03","C01"], ["LokyModel.Props.C04", "LokyModel.Props.C05Live"], quick=1200, thorough=40000, starve=0)
