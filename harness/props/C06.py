"""C06 — forced shutdown is prompt, total and explicit: executor protocol (E1, M1) + kill tree (E2/E3, M10)"""
from ..composite import Composite
from ..e1 import E1Part
from .C02_killtree import PART as KILLTREE

E1 = E1Part("C06", [("kill", 4), ("killwith", 2), ("mixed", 1)], ["C06", "C01"], ["LokyModel.Props.C06", "LokyModel.Props.C06Live", "LokyModel.Props.C06Term"], quick=1200, thorough=30000, starve=2)
PROP = Composite("C06", [E1, KILLTREE])
