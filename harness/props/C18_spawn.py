"""Spawn part of C18 (model M8 `LokyModel.Spawn`, engines E2 + E3).

E2 (in-process; the real code of popen_loky_posix / fork_exec / process / spawn with its environment substituted):
  * `poll`     — `Popen.poll` with `os.waitpid` substituted, over all 65 536 wait statuses (real `os.W*` macros),
                 plus the None / already-set / OSError / pid-0 paths;
  * `forkexec` — the real `fork_exec(cmd, keep_fds, env=LokyProcess(env=…).env)` with `os.environ` substituted and
                 `_posixsubprocess.fork_exec` replaced by a recorder that applies the *assumed* semantics of
                 close_fds / pass_fds to a fake descriptor table: env merge, sorted pass_fds, close_fds literal;
  * `launch`   — the real `Popen._launch` on real descriptors (connections over sparse / inheritable-or-not fds,
                 stray fds), trackers and `_posixsubprocess` substituted: the keep-list by role and order, the
                 main-module key of the pickled preparation data, and the child-side `spawn.prepare` decision.
E3 (real processes, `harness/props/c18_scn.py`, each scenario in a fresh interpreter with a scrubbed environment):
  * `fds`  marker descriptors vs the child's /proc/self/fd (targets, never numbers);   * `env`  overlays;
  * `exit` exit codes / signals / sentinel / is_alive;                                 * `main` no re-run of __main__.

The oracle is written from the statement of C18 and does not use the Lean model.
"""
import json
import os
import pickle
import signal
import subprocess
import sys
import types
from concurrent.futures import ThreadPoolExecutor

from .. import common as C
from ..e2 import E2Prop

E3_KINDS = ("fds", "env", "exit", "main")
SCN_TIMEOUT = 900
NOCORE_SIGS = None


def _csv(xs):
    xs = list(xs)
    return ",".join(str(x) for x in xs) if xs else "-"


def _hx(s):
    if isinstance(s, str):
        s = s.encode("utf-8", "surrogateescape")
    return "x" + s.hex()


def term_signals():
    """signals whose default action terminates the process (Linux), incl. the real-time range"""
    stop_or_ignore = {signal.SIGCHLD, signal.SIGCONT, signal.SIGSTOP, signal.SIGTSTP, signal.SIGTTIN, signal.SIGTTOU,
                      signal.SIGURG, signal.SIGWINCH}
    return [s for s in list(range(1, 32)) + list(range(34, 65)) if s not in {int(x) for x in stop_or_ignore}]


# ------------------------------------------------------------------------------- E2: poll

class _OsProxy:
    def __init__(self, real, **over):
        self.__dict__["_real"] = real
        self.__dict__.update(over)

    def __getattr__(self, k):
        return getattr(self._real, k)


def impl_poll(case):
    import loky.backend.popen_loky_posix as PP
    out = []
    saved = PP.os
    try:
        for rc, w in _poll_items(case):
            pop = PP.Popen.__new__(PP.Popen)
            pop.returncode = rc
            pop.pid = 4242
            calls = []

            def waitpid(pid, flag, w=w):
                calls.append(pid)
                if w[0] == "oserror":
                    raise ChildProcessError(10, "No child processes")
                if w[0] == "notyet":
                    return (0, 0)
                if w[0] == "other":
                    return (4243, w[1])
                return (4242, w[1])
            PP.os = _OsProxy(os, waitpid=waitpid)
            try:
                r = pop.poll()
                r2 = pop.returncode
                s = "none" if r is None else str(r)
                if r != r2:
                    s += f" returncode={r2}"
                if rc is not None and calls:
                    s += " waitpid-called"
            except AssertionError:
                s = "AssertionError"
            out.append(s)
    finally:
        PP.os = saved
    return out


def _poll_items(case):
    if "range" in case:
        a, n = case["range"]
        return [(None, ("mine", s)) for s in range(a, a + n)]
    return [(case["rc"], tuple(case["wait"]))]


# ------------------------------------------------------------------------------- E2: fork_exec

def assumed_child(close_fds, pass_fds, table):
    """the ASSUMED behaviour of _posixsubprocess.fork_exec (see LokyModel.Spawn.forkExec)"""
    prev = -1
    for fd in pass_fds:
        if not isinstance(fd, int) or fd <= prev:
            raise ValueError("bad value(s) in fds_to_keep")
        prev = fd
    return [fd for fd, inh in table if fd in pass_fds or (inh and (fd <= 2 or not close_fds))]


def impl_forkexec(case):
    import loky.backend.fork_exec as FE
    from loky.backend.process import LokyProcess
    cap = {}

    def fake_fork_exec(*a):
        cap["close"], cap["pass"], cap["env"] = a[2], a[3], a[5]
        cap["child"] = assumed_child(a[2], a[3], [tuple(t) for t in case["table"]])
        return 4242
    fake = types.ModuleType("_posixsubprocess")
    fake.fork_exec = fake_fork_exec
    saved_mod = sys.modules.get("_posixsubprocess")
    saved_os = FE.os
    ov = case["overlay"]
    if ov is not None:
        ov = {k: (int(v) if k in case.get("int_values", []) else v) for k, v in ov}
    try:
        sys.modules["_posixsubprocess"] = fake
        FE.os = _OsProxy(os, environ=dict(case["parent"]))
        p = LokyProcess(env=ov) if case.get("via_process", True) else None
        env_arg = p.env if p is not None else ov
        try:
            FE.fork_exec(["py", "-m", "x"], list(case["keep"]), env=env_arg)
            second = f"pass={_csv(cap['pass'])} child={_csv(cap['child'])}"
        except ValueError:
            second = f"pass={_csv(cap.get('pass', []))} ValueError"
        if case.get("parent2") is not None:
            # a later worker of the same executor (respawn, resize): same env= object, the parent's environment
            # has changed in between
            first_env = cap.get("env")
            FE.os = _OsProxy(os, environ=dict(case["parent2"]))
            try:
                FE.fork_exec(["py", "-m", "x"], [], env=env_arg)
                cap["env2"], cap["env"] = cap.get("env"), first_env
            except ValueError:
                cap["env2"], cap["env"] = None, first_env
    finally:
        FE.os = saved_os
        if saved_mod is not None:
            sys.modules["_posixsubprocess"] = saved_mod
        else:
            sys.modules.pop("_posixsubprocess", None)
    def ents_of(envlist):
        ents = []
        for b in envlist or []:
            k, _, v = bytes(b).partition(b"=")
            ents.append(_hx(k) + "=" + _hx(v))
        return _csv(ents)
    outs = [ents_of(cap.get("env")), second + ("" if cap.get("close") is True else f" close_fds={cap.get('close')!r}")]
    if case.get("parent2") is not None:
        outs.append(ents_of(cap.get("env2")))
    return outs


# ------------------------------------------------------------------------------- E2: _launch

def _open_at(num, inh):
    fd = os.open("/dev/null", os.O_RDWR)
    if num is None:
        os.set_inheritable(fd, bool(inh))
        return fd
    while True:
        try:
            os.fstat(num)
            num += 1
        except OSError:
            break
    os.dup2(fd, num, bool(inh))
    os.close(fd)
    return num


def _fdset():
    return {int(x) for x in os.listdir("/proc/self/fd")}


def impl_launch(case):
    import loky.backend.popen_loky_posix as PP
    import loky.backend.resource_tracker as RT
    import loky.backend.spawn as SP
    import multiprocessing.resource_tracker as MRT
    from multiprocessing import util
    from multiprocessing.connection import Connection
    from loky.backend import get_context
    from loky.backend.process import LokyProcess, LokyInitMainProcess
    from . import c18_targets as T
    before = _fdset()
    conns, cap = [], {}
    saved = {"rt": RT._resource_tracker, "mrt": MRT._resource_tracker, "main": sys.modules["__main__"],
             "psp": sys.modules.get("_posixsubprocess"), "runpy": SP.runpy, "mp_main": sys.modules.get("__mp_main__")}
    lines = []
    try:
        tr_r, tr_w = os.pipe()
        mp_r, mp_w = os.pipe()

        class FakeTracker:
            def __init__(self, fd):
                self._fd, self._pid = fd, 1

            def getfd(self):
                return self._fd

            def ensure_running(self):
                pass
        RT._resource_tracker = FakeTracker(tr_w)
        MRT._resource_tracker = FakeTracker(mp_w)
        dupfds = []
        for dspec in case["dups"]:
            fd = _open_at(dspec.get("num"), dspec["inh"])
            for _ in range(2 if dspec.get("twice") else 1):
                conns.append(Connection(fd))
                dupfds.append(fd)
        strays = [_open_at(s.get("num"), s["inh"]) for s in case["strays"]]
        kind = case["proc"]
        kw = dict(target=T.noop, args=tuple(conns))
        if kind == "default":
            p = LokyProcess(**kw)
        elif kind in ("ctor0", "ctor1"):
            p = LokyProcess(init_main_module=(kind == "ctor1"), **kw)
        elif kind == "initmain":
            p = LokyInitMainProcess(**kw)
        elif kind.startswith("ctx:"):
            p = get_context(kind[4:]).Process(**kw)
        elif kind == "noattr":
            p = LokyProcess(**kw)
            del p.init_main_module
        else:
            raise ValueError(kind)
        fmain = types.ModuleType("__main__")
        fmain.__spec__ = types.SimpleNamespace(name=case["spec"]) if case["spec"] is not None else None
        if case["file"] is not None:
            fmain.__file__ = case["file"]

        def fake_fork_exec(*a):
            cap["close"], cap["pass"] = a[2], a[3]
            cap["cmd"] = [os.fsdecode(x) for x in a[0]]
            cap["table"] = []
            for n in sorted(_fdset()):
                try:
                    cap["table"].append((n, int(os.get_inheritable(n))))
                except OSError:
                    pass
            cap["payload"] = os.dup(int(cap["cmd"][cap["cmd"].index("--pipe") + 1]))
            cap["child"] = assumed_child(a[2], a[3], cap["table"])
            return 4242
        fake = types.ModuleType("_posixsubprocess")
        fake.fork_exec = fake_fork_exec
        sys.modules["_posixsubprocess"] = fake
        sys.modules["__main__"] = fmain
        pop = None
        try:
            pop = PP.Popen(p)
            first = f"keep={_csv(pop._fds)} child={_csv(cap['child'])}"
        except ValueError:
            first = "keep=? ValueError"
        finally:
            sys.modules["__main__"] = saved["main"]
        obs = {"tracker": tr_w, "mp": mp_w, "dups": dupfds, "strays": strays, "table": cap.get("table"),
               "cmd": cap.get("cmd"), "close": cap.get("close"), "pass": list(cap.get("pass", []))}
        if pop is not None:
            keep = list(pop._fds)
            child_r = int(cap["cmd"][cap["cmd"].index("--pipe") + 1])
            rest = list(keep)
            for x in dupfds + [child_r, tr_w, mp_w]:
                if x in rest:
                    rest.remove(x)
            obs.update(keep=keep, childR=child_r, childW=rest[0] if len(rest) == 1 else None, unmapped=rest,
                       sentinel_is_pipe_of_childW=None)
            if cap.get("close") is not True:
                first += f" close_fds={cap.get('close')!r}"
            # the pickled preparation data, as the child would read it
            with os.fdopen(cap.pop("payload"), "rb") as f:
                prep = pickle.load(f)
            if "init_main_from_name" in prep:
                key = "name:" + prep["init_main_from_name"]
            elif "init_main_from_path" in prep:
                key = "path:" + prep["init_main_from_path"]
            else:
                key = "none"
            # child side: spawn.prepare() with only the main-module keys, runpy substituted
            ran = []
            cmain = types.ModuleType("__main__")
            cmain.__spec__ = types.SimpleNamespace(name=case["cspec"]) if case["cspec"] is not None else None
            if case["cfile"] is not None:
                cmain.__file__ = case["cfile"]
            SP.runpy = types.SimpleNamespace(run_module=lambda *a, **k: ran.append(a) or {},
                                             run_path=lambda *a, **k: ran.append(a) or {})
            n_old = len(SP.old_main_modules)
            sys.modules["__main__"] = cmain
            try:
                SP.prepare({k: v for k, v in prep.items() if k.startswith("init_main_from")})
            finally:
                sys.modules["__main__"] = saved["main"]
                del SP.old_main_modules[n_old:]
            lines = [first, f"key={key} rerun={int(bool(ran))}"]
        else:
            obs.update(keep=None)
            lines = [first, "key=? rerun=?"]
        lines.append("OBS " + json.dumps(obs, sort_keys=True))
    finally:
        RT._resource_tracker = saved["rt"]
        MRT._resource_tracker = saved["mrt"]
        SP.runpy = saved["runpy"]
        sys.modules["__main__"] = saved["main"]
        if saved["mp_main"] is None:
            sys.modules.pop("__mp_main__", None)
        else:
            sys.modules["__mp_main__"] = saved["mp_main"]
        if saved["psp"] is not None:
            sys.modules["_posixsubprocess"] = saved["psp"]
        else:
            sys.modules.pop("_posixsubprocess", None)
        for c in conns:
            c._handle = None
        for fin in list(util._finalizer_registry.values()):
            if fin._callback is os.close:
                try:
                    fin()
                except OSError:
                    pass
        for fd in _fdset() - before:
            try:
                os.close(fd)
            except OSError:
                pass
    return lines


# ------------------------------------------------------------------------------- E3 plumbing

def run_scn(sc):
    env = {"PATH": os.environ.get("PATH", "/usr/bin:/bin"), "HOME": os.environ.get("HOME", "/tmp"),
           "LC_CTYPE": "C.UTF-8"}
    env["PYTHONPATH"] = os.pathsep.join(([os.environ["VERIF_REPO"]] if os.environ.get("VERIF_REPO") else []) + [C.ROOT])
    try:
        r = subprocess.run([sys.executable, "-m", "harness.props.c18_scn", json.dumps(sc)], cwd=C.ROOT, env=env,
                           capture_output=True, text=True, timeout=SCN_TIMEOUT, stdin=subprocess.DEVNULL)
    except subprocess.TimeoutExpired:
        raise C.Infra(f"spawn scenario exceeded {SCN_TIMEOUT}s: {json.dumps(sc)[:300]}")
    rep = [l for l in r.stdout.split("\n") if l.startswith("REPORT ")]
    if r.returncode != 0 or not rep:
        raise C.Infra(f"spawn scenario failed rc={r.returncode}: {r.stderr[-600:]}")
    return json.loads(rep[-1][7:])


def out_fds(case, rep):
    if rep["start"] is not None:
        return ["start=" + rep["start"].split(":")[0], "OBS " + json.dumps(rep, sort_keys=True)]
    if rep["child"] is None:
        return [f"keep={_csv(rep['keep'])} child-failed exit={rep['exitcode']}", "OBS " + json.dumps(rep, sort_keys=True)]
    tgt = {t[0]: t[2] for t in rep["table"]}
    seen = sorted({os.path.basename(t) for t in rep["child"]["fds"].values() if os.path.basename(t).startswith("marker-")})
    cht = set(rep["child"]["fds"].values())
    roles = []
    if rep["sentinel"] in cht:
        roles.append("sentinel")
    if tgt.get(rep["tracker"]) in cht:
        roles.append("tracker")
    if tgt.get(rep["mp_tracker"]) in cht:
        roles.append("mp")
    if rep["pipe"] and rep["pipe"] in cht:
        roles.append("pipe")
    if rep["sock"] and rep["sock"] in cht:
        roles.append("sock")
    return [f"keep={_csv(rep['keep'])} markers={_csv(seen)} roles={_csv(roles)}", "OBS " + json.dumps(rep, sort_keys=True)]


def fds_roles(rep):
    """map the recorded keep-list to roles; returns (childR, childW, dups) or None"""
    cmd = rep["cmd"]
    child_r = int(cmd[cmd.index("--pipe") + 1])
    rest = list(rep["keep"])
    for x in rep["passed"] + [child_r, rep["tracker"], rep["mp_tracker"]]:
        if x in rest:
            rest.remove(x)
    tgt = {t[0]: t[2] for t in rep["table"]}
    if len(rest) != 1 or tgt.get(rest[0]) != rep["sentinel"]:
        return None
    return child_r, rest[0], rep["passed"]


def out_env(case, rep):
    if rep["child"] is None:
        return ["child-failed", f"at_import_same=0 exit={rep['exitcode']}", "OBS " + json.dumps({"parent": rep["parent"]}, sort_keys=True)]
    ch = ",".join(_hx(k) + "=" + _hx(v) for k, v in rep["child"]) or "-"
    same = int(rep["child"] == rep["child_at_import"])
    return [ch, f"at_import_same={same} exit={rep['exitcode']}", "OBS " + json.dumps({"parent": rep["parent"]}, sort_keys=True)]


def out_exit(case, rep):
    ls = []
    for r in rep["results"]:
        s = f"exitcode={r['exitcode']} sentinel={r['sentinel_after']} alive={r['alive_after']}"
        if "alive_before" in r:
            s += f" before:alive={r['alive_before']},exitcode={r['exitcode_before']},sentinel={r['sentinel_before']}"
        ls.append(s)
    return ls + ["OBS " + json.dumps([r["raw_status"] for r in rep["results"]])]


def out_main(case, rep):
    return [f"rc={rep['rc']} runs={_csv(rep['runs'])}", "OBS " + json.dumps(rep, sort_keys=True)]


# ------------------------------------------------------------------------------- the part

class SpawnPart(E2Prop):
    id = "C18"
    name = "spawn"
    engine = "E2+E3"
    lean_modules = ["LokyModel.Props.C18Spawn"]
    driver = "spawn_driver"
    budget = {"quick": 170, "thorough": 1700}
    n_cases = {"quick": 2500, "thorough": 40000}
    n_e3 = {"quick": {"fds": 9, "env": 4, "exit_groups": 3, "exit_items": 5, "main": 0},
            "thorough": {"fds": 190, "env": 40, "exit_groups": 0, "exit_items": 0, "main": 0}}
    search_cases = {"quick": 2500, "thorough": 20000}
    rule = ("E2: poll = all 65 536 wait statuses in 256 blocks + returncode/waitpid paths; forkexec = parent env × "
            "overlay (new keys, overrides, empty values, '=' and non-ASCII in values, int values, None/{}), keep-lists "
            "(unsorted, duplicates) over fake descriptor tables; launch = real _launch over real descriptors "
            "(0–4 passed connections on sparse / inheritable-or-not fds, strays, one fd passed twice), 8 process-object "
            "kinds × parent __main__ shapes (spec name / file / neither / __main__ / pkg.__main__ / ipython). "
            "E3: fds = real LokyProcess with 0–8 marker descriptors (numbers 3…900, inheritable or not, passed or not, "
            "optional pipe and socket); env = real overlays; exit = real exit codes / signals with raw wait status "
            "recorded; main = unguarded script with LokyProcess children / reusable executor, guarded script under "
            "loky_init_main. Every case counts as non-trivial (a poll block of 256 statuses counts once; each block contains "
            "exit, signal, core-flag and stopped encodings). Distinct by full input.")
    assumptions = [
        "_posixsubprocess.fork_exec(close_fds=True, pass_fds=keep) closes every descriptor above 2 that is not in keep, keeps "
        "those in keep whatever their inheritable flag, and rejects a keep tuple that is not strictly increasing "
        "(written down as LokyModel.Spawn.forkExec; executed for real in the E3 scenarios)",
        "Linux encoding of wait statuses (W* macros); stopped/continued statuses are never returned to poll (no WUNTRACED)",
        "deliberately passed descriptors are pairwise distinct (the same fd registered twice makes start() raise ValueError: "
        "modelled, duplicate_keep_rejected)",
        "E3 recognises descriptors by link target (marker file / pipe or socket inode), never by number",
    ]

    # ---- cases ------------------------------------------------------------------------
    def corpus(self):
        cs = [{"kind": "poll", "range": [a, 256]} for a in range(0, 65536, 256)]
        for rc in (None, 0, 3, -9, 255):
            for w in (["oserror"], ["notyet"], ["other", 0], ["other", 9], ["mine", 0], ["mine", 0x0300], ["mine", 9],
                      ["mine", 0x8b], ["mine", 0x7f], ["mine", 0x137f], ["mine", 0xffff], ["mine", 0xff00], ["mine", 0x80]):
                cs.append({"kind": "poll", "rc": rc, "wait": w})
        tbl = [[0, 1], [1, 1], [2, 1], [4, 0], [5, 1], [6, 0], [7, 1], [8, 0], [10, 1], [12, 0], [900, 0]]
        P = [["PATH", "/bin"], ["HOME", "/root"], ["EMPTY", ""], ["A", "1"]]
        for ov in (None, [], [["A", "2"]], [["A", ""]], [["NEW", "x"]], [["NEW", ""]], [["EMPTY", "full"]],
                   [["A", "2"], ["NEW", "y"], ["HOME", ""]], [["K", "a=b=c"]], [["U", "h\u00e9 \u4e16"]],
                   [["N", "4"]], [["A", "1"]]):
            cs.append({"kind": "forkexec", "parent": P, "overlay": ov, "keep": [12, 7, 10, 4, 6], "table": tbl,
                       "int_values": ["N"] if ov and ov[0][0] == "N" else []})
        cs.append({"kind": "forkexec", "parent": [], "overlay": None, "keep": [7, 10], "table": tbl, "int_values": []})
        cs.append({"kind": "forkexec", "parent": [["A", "1"], ["GONE", "1"]], "overlay": [["OV", "1"]], "keep": [7], "table": tbl,
                   "int_values": [], "parent2": [["A", "2"], ["NEW", "3"]]})
        cs.append({"kind": "forkexec", "parent": [], "overlay": [["ONLY", "1"]], "keep": [], "table": tbl, "int_values": []})
        cs.append({"kind": "forkexec", "parent": P, "overlay": [["A", "2"]], "keep": [12, 12, 7], "table": tbl, "int_values": []})
        cs.append({"kind": "forkexec", "parent": P, "overlay": [["A", "0"]], "keep": [900, 4], "table": tbl, "int_values": [],
                   "via_process": False})
        base = dict(kind="launch", dups=[], strays=[], proc="default", spec=None, file="/srv/app/run.py",
                    cspec="loky.backend.popen_loky_posix", cfile="/repo/loky/backend/popen_loky_posix.py")
        for proc in ("default", "ctor0", "ctor1", "initmain", "ctx:loky", "ctx:loky_init_main", "noattr"):
            for spec, file in ((None, "/srv/app/run.py"), ("pkg.mod", "/srv/pkg/mod.py"), (None, None),
                               ("__main__", "/srv/app/__main__.py"), ("pkg.__main__", "/srv/pkg/__main__.py"),
                               (None, "/usr/bin/ipython"), (None, "/usr/bin/ipython.py")):
                cs.append(dict(base, proc=proc, spec=spec, file=file))
        cs.append(dict(base, proc="initmain", spec="loky.backend.popen_loky_posix", file="/repo/loky/backend/popen_loky_posix.py"))
        cs.append(dict(base, proc="initmain", file="/repo/loky/backend/popen_loky_posix.py"))
        cs.append(dict(base, dups=[{"inh": 0}], strays=[{"inh": 1}, {"inh": 0}]))
        cs.append(dict(base, dups=[{"inh": 0, "num": 400}, {"inh": 1, "num": 33}], strays=[{"inh": 1, "num": 700}, {"inh": 0, "num": 35}]))
        cs.append(dict(base, dups=[{"inh": 1, "twice": True}], strays=[{"inh": 1}]))
        cs.append(dict(base, dups=[{"inh": 0}, {"inh": 0}, {"inh": 1}, {"inh": 1, "num": 250}], strays=[]))
        # E3
        cs.append({"kind": "fds", "extra": [], "pipe": 0, "sock": 0})
        cs.append({"kind": "fds", "extra": [{"num": 50, "inh": 1, "passed": 0}, {"num": 300, "inh": 0, "passed": 1},
                                            {"num": 7, "inh": 1, "passed": 1}, {"num": 801, "inh": 0, "passed": 0}], "pipe": 1, "sock": 1})
        cs.append({"kind": "fds", "extra": [{"num": 3, "inh": 1, "passed": 0}, {"num": 4, "inh": 1, "passed": 0},
                                            {"num": 5, "inh": 0, "passed": 0}, {"num": 64, "inh": 1, "passed": 0},
                                            {"num": 255, "inh": 1, "passed": 0}, {"num": 256, "inh": 1, "passed": 0},
                                            {"num": 899, "inh": 1, "passed": 0}], "pipe": 0, "sock": 0})
        cs.append({"kind": "env", "set": {"VERIF_A": "1", "VERIF_EMPTY": "", "VERIF_KEEP": "keep"}, "unset": [],
                   "overlay": {"VERIF_A": "2", "VERIF_NEW": "n", "VERIF_NEWEMPTY": "", "VERIF_EMPTY": "now", "VERIF_KEEP": "",
                               "VERIF_EQ": "a=b", "VERIF_U": "h\u00e9"}, "int_values": []})
        cs.append({"kind": "env", "set": {"VERIF_A": "1"}, "unset": [], "overlay": None, "int_values": []})
        cs.append({"kind": "env", "set": {"VERIF_A": "1"}, "unset": [], "overlay": {}, "int_values": []})
        cs.append({"kind": "env", "set": {}, "unset": [], "overlay": {"OMP_NUM_THREADS": "4", "PATH": "/usr/bin:/bin"},
                   "int_values": ["OMP_NUM_THREADS"]})
        cs.append({"kind": "exit", "items": [{"mode": "exit", "n": 0, "alive_check": 1}, {"mode": "exit", "n": 1},
                                             {"mode": "exit", "n": 255}, {"mode": "sysexit", "n": 3},
                                             {"mode": "signal", "sig": 9, "alive_check": 1}, {"mode": "signal", "sig": 15}]})
        cs.append({"kind": "exit", "items": [{"mode": "signal", "sig": 11}, {"mode": "signal", "sig": 6},
                                             {"mode": "signal", "sig": 2}, {"mode": "exit", "n": 127}, {"mode": "exit", "n": 128},
                                             {"mode": "exit", "n": 137}]})
        cs.append({"kind": "main", "method": "loky", "guard": 0, "use": "process", "n": 2})
        cs.append({"kind": "main", "method": "loky", "guard": 0, "use": "executor", "n": 2})
        cs.append({"kind": "main", "method": "loky_init_main", "guard": 1, "use": "process", "n": 2})
        return cs

    def gen(self, rng, i):
        r = rng.random()
        if r < 0.15:
            rc = rng.choice([None, None, None, 0, 1, -9, rng.randint(-64, 255)])
            w = rng.choice([["oserror"], ["notyet"], ["other", rng.randrange(65536)], ["mine", rng.randrange(65536)],
                            ["mine", rng.randrange(256) << 8], ["mine", rng.randint(1, 64)], ["mine", rng.randint(1, 64) | 0x80],
                            ["mine", rng.randrange(1 << 20)]])
            return {"kind": "poll", "rc": rc, "wait": w}
        if r < 0.7:
            keys = ["PATH", "HOME", "A", "B", "C", "LOKY_X", "EMPTY", "k", "K", "AA", "\u00e9"]
            vals = ["", "", "1", "0", "x", "a b", "a=b", "=", "/usr/bin:/bin", "\u4e16\u754c", "x" * 50]
            pk = rng.sample(keys, rng.randint(0, len(keys)))
            parent = [[k, rng.choice(vals)] for k in pk]
            if rng.random() < 0.12:
                overlay = None
            else:
                ok = rng.sample(keys + ["NEW1", "NEW2"], rng.randint(0, 6))
                overlay = [[k, rng.choice(vals)] for k in ok]
            ints = []
            if overlay and rng.random() < 0.15:
                k = rng.choice(overlay)
                k[1] = str(rng.randint(0, 64))
                ints = [k[0]]
            nt = rng.randint(3, 14)
            fds = sorted(set([0, 1, 2] + rng.sample(range(3, 1000 if rng.random() < 0.5 else 20), nt)))
            if rng.random() < 0.1:
                fds = [f for f in fds if f != rng.choice([0, 1, 2])]
            table = [[f, 1 if (f <= 2 and rng.random() < 0.95) or (f > 2 and rng.random() < 0.5) else 0] for f in fds]
            openfds = [f for f in fds if f > 2]
            keep = rng.sample(openfds, rng.randint(0, min(6, len(openfds))))
            if rng.random() < 0.08 and keep:
                keep.append(rng.choice(keep))
            if rng.random() < 0.05:
                keep.append(rng.randint(3, 1200))      # not open in the parent
            rng.shuffle(keep)
            case = {"kind": "forkexec", "parent": parent, "overlay": overlay, "keep": keep, "table": table,
                    "int_values": ints, "via_process": rng.random() < 0.9}
            if rng.random() < 0.35:
                p2 = [list(kv) for kv in parent if rng.random() < 0.7]
                for kv in p2:
                    if rng.random() < 0.4:
                        kv[1] = kv[1] + "x"
                if rng.random() < 0.6:
                    p2.append(["LATER_" + str(rng.randint(0, 9)), str(rng.randint(0, 99))])
                case["parent2"] = p2
            return case
        nd = rng.choice([0, 0, 1, 1, 2, 3, 4])
        dups = [{"inh": rng.randint(0, 1), **({"num": rng.randint(20, 900)} if rng.random() < 0.5 else {})} for _ in range(nd)]
        if dups and rng.random() < 0.06:
            dups[rng.randrange(nd)]["twice"] = True
        strays = [{"inh": rng.randint(0, 1), **({"num": rng.randint(3, 900)} if rng.random() < 0.6 else {})}
                  for _ in range(rng.choice([0, 1, 2, 3, 5]))]
        spec, file = rng.choice([(None, "/srv/app/run.py"), ("pkg.mod", "/srv/pkg/mod.py"), (None, None),
                                 ("__main__", "/srv/app/__main__.py"), ("pkg.__main__", "/srv/pkg/__main__.py"),
                                 (None, "/usr/bin/ipython"), ("ipython", None), (None, "/srv/ipython/x.py"),
                                 ("loky.backend.popen_loky_posix", "/repo/loky/backend/popen_loky_posix.py"),
                                 (None, "/repo/loky/backend/popen_loky_posix.py")])
        return {"kind": "launch", "dups": dups, "strays": strays,
                "proc": rng.choice(["default", "default", "ctor0", "ctor1", "initmain", "ctx:loky", "ctx:loky_init_main", "noattr"]),
                "spec": spec, "file": file, "cspec": "loky.backend.popen_loky_posix",
                "cfile": "/repo/loky/backend/popen_loky_posix.py"}

    def gen_e3(self, rng, tier):
        n = self.n_e3[tier]
        cs = []
        for _ in range(n["fds"]):
            k = rng.choice([1, 2, 3, 4, 6, 8])
            extra = [{"num": rng.choice([rng.randint(3, 30), rng.randint(3, 900), rng.choice([3, 63, 64, 255, 256, 512])]),
                      "inh": rng.randint(0, 1), "passed": 1 if rng.random() < 0.3 else 0} for _ in range(k)]
            cs.append({"kind": "fds", "extra": extra, "pipe": int(rng.random() < 0.4), "sock": int(rng.random() < 0.3)})
        for _ in range(n["env"]):
            keys = ["VERIF_A", "VERIF_B", "VERIF_C", "VERIF_EMPTY", "verif_lower", "VERIF_LONG"]
            vals = ["", "", "1", "two words", "a=b", "h\u00e9\u4e16", "/x:/y", "v" * 200]
            st = {k: rng.choice(vals) for k in rng.sample(keys, rng.randint(0, 5))}
            if rng.random() < 0.15:
                ov = None
            else:
                ov = {k: rng.choice(vals) for k in rng.sample(keys + ["VERIF_NEW1", "VERIF_NEW2", "PATH"], rng.randint(0, 6))}
                if "PATH" in ov:
                    ov["PATH"] = os.environ.get("PATH", "/usr/bin:/bin")
            ints = []
            if ov and rng.random() < 0.2:
                k = rng.choice([k for k in ov if k != "PATH"] or ["VERIF_N"])
                ov[k] = str(rng.randint(0, 99))
                ints = [k]
            cs.append({"kind": "env", "set": st, "unset": [], "overlay": ov, "int_values": ints})
        if tier == "thorough":
            items = [{"mode": "exit", "n": x} for x in range(256)] + [{"mode": "signal", "sig": s} for s in term_signals()]
            items += [{"mode": "sysexit", "n": x} for x in (0, 1, 2, 77, 255)]
            rng.shuffle(items)
            for j in range(0, len(items), 16):
                grp = [dict(x) for x in items[j:j + 16]]
                grp[0]["alive_check"] = 1
                cs.append({"kind": "exit", "items": grp})
            for m, g, u in (("loky", 0, "process"), ("loky", 0, "executor"), ("loky", 1, "executor"),
                            ("loky_init_main", 1, "process"), ("loky_init_main", 1, "executor")):
                cs.append({"kind": "main", "method": m, "guard": g, "use": u, "n": rng.choice([1, 2, 3])})
        else:
            sigs = term_signals()
            for _ in range(n["exit_groups"]):
                grp = []
                for _ in range(n["exit_items"]):
                    if rng.random() < 0.55:
                        grp.append({"mode": "exit", "n": rng.choice([rng.randrange(256), rng.choice([0, 1, 2, 126, 127, 128, 129, 254, 255])])})
                    elif rng.random() < 0.1:
                        grp.append({"mode": "sysexit", "n": rng.randrange(256)})
                    else:
                        grp.append({"mode": "signal", "sig": rng.choice(sigs)})
                grp[0]["alive_check"] = 1
                cs.append({"kind": "exit", "items": grp})
        return cs

    # ---- model ------------------------------------------------------------------------
    def model_lines(self, case, out=None):
        k = case["kind"]
        if k == "poll":
            return [f"poll {'none' if rc is None else rc} {w[0] + (':' + str(w[1]) if len(w) > 1 else '')}"
                    for rc, w in _poll_items(case)]
        if k == "forkexec":
            par = _csv(_hx(a) + ":" + _hx(b) for a, b in case["parent"])
            ov = "none" if case["overlay"] is None else _csv(_hx(a) + ":" + _hx(b) for a, b in case["overlay"])
            tbl = _csv(f"{a}:{b}" for a, b in case["table"])
            lines = [f"env {par} {ov}", f"forkexec 1 {_csv(case['keep'])} {tbl}"]
            if case.get("parent2") is not None:
                lines.append(f"env {_csv(_hx(a) + ':' + _hx(b) for a, b in case['parent2'])} {ov}")
            return lines
        if k == "launch":
            obs = json.loads(out[2][4:])
            proc = {"default": "ctor:none", "ctor0": "ctor:0", "ctor1": "ctor:1", "initmain": "initmain", "noattr": "attr:none"}.get(
                case["proc"], "method:" + case["proc"][4:])
            stem = os.path.splitext(os.path.basename(case["file"]))[0] if case["file"] else "-"
            mainl = (f"main {proc} {case['spec'] or 'none'} {case['file'] or 'none'} {case['cspec'] or 'none'} "
                     f"{case['cfile'] or 'none'} {stem}")
            tbl = _csv(f"{a}:{b}" for a, b in (obs["table"] or []))
            if obs.get("keep") is None:
                # start() raised before anything could be mapped: roles from the harness's own bookkeeping
                cmd = obs["cmd"]
                cr = int(cmd[cmd.index("--pipe") + 1])
                rest = [x for x in obs["pass"] if x not in obs["dups"] + [cr, obs["tracker"], obs["mp"]]]
                cw = rest[0] if rest else 0
            else:
                cr, cw = obs["childR"], obs["childW"] if obs["childW"] is not None else 0
            return [f"launch {cr} {cw} {obs['tracker']} {obs['mp']} {_csv(obs['dups'])} {tbl}", mainl]
        if k == "fds":
            rep = json.loads(out[1][4:])
            roles = fds_roles(rep)
            tbl = _csv(f"{t[0]}:{t[1]}" for t in rep["table"])
            if roles is None:
                return ["unmappable"]
            cr, cw, dups = roles
            return [f"launch {cr} {cw} {rep['tracker']} {rep['mp_tracker']} {_csv(dups)} {tbl}"]
        if k == "env":
            obs = json.loads(out[2][4:])
            par = _csv(_hx(a) + ":" + _hx(b) for a, b in obs["parent"])
            ov = "none" if case["overlay"] is None else _csv(_hx(a) + ":" + _hx(str(b)) for a, b in case["overlay"].items())
            return [f"env {par} {ov}"]
        if k == "exit":
            raw = json.loads(out[-1][4:])
            return [f"poll none mine:{s}" if s is not None else "poll none notyet" for s in raw]
        if k == "main":
            rep = json.loads(out[1][4:])
            g = "method:" + case["method"]
            return [f"main {g} none {rep['script']} loky.backend.popen_loky_posix {rep['child_file']} userscript"]
        raise ValueError(k)

    def model_project(self, case, lines, out):
        k = case["kind"]
        if k == "launch":
            first = lines[0]
            if out[0].startswith("keep=? "):
                first = "keep=? " + first.split(" ", 1)[1]
            if first.endswith("ValueError"):
                return [first, "key=? rerun=?"]      # start() raised: nothing is shipped
            return [first, lines[1]]
        if k == "fds":
            rep = json.loads(out[1][4:])
            if lines[0].endswith("ValueError"):
                return ["start=ValueError"]
            if not lines[0].startswith("keep="):
                return lines
            f = dict(x.split("=", 1) for x in lines[0].split(" "))
            child = {int(x) for x in f["child"].split(",")} if f["child"] != "-" else set()
            seen = sorted(v for k_, v in rep["markers"].items() if int(k_) in child)
            cr, cw, dups = fds_roles(rep)
            tgt = {t[0]: t[2] for t in rep["table"]}
            roles = []
            if cw in child:
                roles.append("sentinel")
            if rep["tracker"] in child:
                roles.append("tracker")
            if rep["mp_tracker"] in child:
                roles.append("mp")
            if rep["pipe"] and any(tgt.get(x) == rep["pipe"] for x in child):
                roles.append("pipe")
            if rep["sock"] and any(tgt.get(x) == rep["sock"] for x in child):
                roles.append("sock")
            return [f"keep={f['keep']} markers={_csv(seen)} roles={_csv(roles)}"]
        if k == "exit":
            res = []
            for l, o in zip(lines, out):
                res.append(f"exitcode={l.capitalize() if l == 'none' else l}")
            return res
        if k == "main":
            f = dict(x.split("=", 1) for x in lines[0].split(" "))
            n = case["n"] if case["use"] == "process" else case["n"]
            runs = ["__main__"] + (["__mp_main__"] * n if f["rerun"] == "1" else [])
            return [f"rc=0 runs={_csv(runs)}"]
        return lines

    def impl_project(self, case, out):
        k = case["kind"]
        if k == "launch":
            return out[:2]
        if k in ("fds", "main"):
            return out[:1]
        if k == "env":
            return out[:1]
        if k == "exit":
            return [o.split(" ")[0] for o in out[:-1]]
        return out

    # ---- implementation -----------------------------------------------------------------
    def impl(self, case):
        k = case["kind"]
        if k == "poll":
            return impl_poll(case)
        if k == "forkexec":
            return impl_forkexec(case)
        if k == "launch":
            return impl_launch(case)
        rep = run_scn(case)
        if "crash" in rep:
            return ["crash=" + rep["crash"].split(":")[0], "OBS " + json.dumps(rep, sort_keys=True)]
        return {"fds": out_fds, "env": out_env, "exit": out_exit, "main": out_main}[k](case, rep)

    # ---- oracle (from the statement of C18) -------------------------------------------------
    def oracle(self, case, out, strict=False):
        k = case["kind"]
        if out and out[0].startswith("HARNESS-EXC"):
            return out[0]
        if k == "poll":
            for (rc, w), o in zip(_poll_items(case), out):
                if rc is not None:
                    if o != str(rc):
                        return f"returncode {rc} already set, poll gave {o}"
                    continue
                if w[0] != "mine":
                    if o != "none":
                        return f"no status for this child ({w[0]}), poll gave {o}"
                    continue
                s = w[1]
                if s >= 65536:
                    continue
                low, high = s & 0xff, s >> 8
                if low == 0:
                    exp = str(high)                       # exited with code `high`
                elif (low & 0x7f) not in (0, 0x7f):
                    exp = str(-(low & 0x7f))              # killed by signal, core flag or not
                    if high:
                        continue                          # not a status the kernel produces
                else:
                    continue                              # stopped / continued / not an encoding
                if o != exp:
                    return f"wait status {s:#06x} reported as exitcode {o}, expected {exp}"
            return None
        if k == "forkexec":
            par, ov = dict(case["parent"]), dict(case["overlay"] or [])
            exp = dict(par)
            exp.update(ov)
            got = {}
            if out[0] != "-":
                for e in out[0].split(","):
                    a, b = e.split("=")
                    a, b = bytes.fromhex(a[1:]).decode(), bytes.fromhex(b[1:]).decode()
                    if a in got:
                        return f"key {a!r} twice in the child's environment"
                    got[a] = b
            if got != exp:
                diff = {a: (got.get(a), exp.get(a)) for a in set(got) | set(exp) if got.get(a) != exp.get(a)}
                return f"child environment differs from parent overlaid with env= (key: got, expected): {diff}"
            if case.get("parent2") is not None and len(out) > 2:
                exp2 = dict(dict(case["parent2"]))
                exp2.update(ov)
                got2 = {}
                if out[2] != "-":
                    for e in out[2].split(","):
                        a, b = e.split("=")
                        got2[bytes.fromhex(a[1:]).decode()] = bytes.fromhex(b[1:]).decode()
                if got2 != exp2:
                    diff = {a: (got2.get(a), exp2.get(a)) for a in set(got2) | set(exp2) if got2.get(a) != exp2.get(a)}
                    return ("a later worker started with the same env= mapping does not get the parent's *current* environment "
                            f"overlaid with env= (key: got, expected): {diff}")
            keep = case["keep"]
            if out[1].endswith("ValueError") or "ValueError" in out[1]:
                if len(set(keep)) == len(keep):
                    return "fork_exec raised ValueError on a duplicate-free keep-list"
                return None
            f = dict(x.split("=", 1) for x in out[1].split(" "))
            child = [] if f["child"] == "-" else [int(x) for x in f["child"].split(",")]
            opened = {a: b for a, b in case["table"]}
            stray = [x for x in child if x > 2 and x not in keep]
            if stray:
                return f"descriptors {stray} of the parent reach the child although they are not passed deliberately"
            miss = [x for x in keep if x in opened and x not in child]
            if miss:
                return f"deliberately passed descriptors {miss} do not reach the child"
            return None
        if k == "launch":
            obs = json.loads(out[2][4:])
            if out[0].endswith("ValueError"):
                if any(d.get("twice") for d in case["dups"]):
                    return None
                return "start() raised ValueError although all passed descriptors are distinct"
            f = dict(x.split("=", 1) for x in out[0].split(" "))
            child = [] if f["child"] == "-" else [int(x) for x in f["child"].split(",")]
            stray = [x for x in child if x in obs["strays"]]
            if stray:
                return f"stray descriptors {stray} (not passed) would be open in the child"
            known = set(obs["dups"]) | {obs["tracker"], obs["mp"], obs["childR"], obs["childW"]}
            extra = [x for x in child if x > 2 and x not in known]
            if extra:
                return f"descriptors {extra} of the parent would be open in the child, none of them passed deliberately"
            miss = [x for x in obs["dups"] if x not in child]
            if miss:
                return f"passed connection descriptors {miss} would not reach the child"
            if obs["childW"] is None or obs["childW"] not in child or obs["childR"] not in child:
                return "payload / sentinel pipe ends do not reach the child"
            if obs["tracker"] not in child:
                return "the resource tracker descriptor does not reach the child"
            if case["proc"] in ("default", "ctor0", "ctx:loky"):
                if out[1] != "key=none rerun=0":
                    return f"default 'loky' process would re-run / re-import the parent's __main__: {out[1]}"
            return None
        if k in E3_KINDS and out[0].startswith("crash="):
            rep = json.loads(out[1][4:])
            return f"scenario crashed in the code under test: {rep['crash']} | {rep['where'][-300:]}"
        if k == "fds":
            rep = json.loads(out[1][4:])
            if rep["start"] is not None:
                return f"start() raised {rep['start']}"
            if rep["exitcode"] != 0 or rep["child"] is None:
                return f"the child could not use what it was passed: exit code {rep['exitcode']}, report written: {rep['child'] is not None}"
            passed = {rep["markers"][str(fd)] for fd in rep["passed"] if str(fd) in rep["markers"]}
            seen = {os.path.basename(t) for t in rep["child"]["fds"].values() if os.path.basename(t).startswith("marker-")}
            if seen - passed:
                det = [(fd, [t[1] for t in rep["table"] if t[0] == int(fd)]) for fd, v in rep["markers"].items() if v in seen - passed]
                return f"stray descriptors in the child: markers {sorted(seen - passed)} (parent fd, inheritable: {det})"
            if passed - seen:
                return f"deliberately passed descriptors missing in the child: {sorted(passed - seen)}"
            cht = set(rep["child"]["fds"].values())
            if rep["sentinel"] not in cht:
                return "the sentinel pipe's write end is not open in the child"
            if rep["pipe"] and rep["pipe"] not in cht:
                return "the passed pipe connection is not open in the child"
            if rep["sock"] and rep["sock"] not in cht:
                return "the passed socket is not open in the child"
            return None
        if k == "env":
            obs = json.loads(out[2][4:])
            exp = dict(obs["parent"])
            exp.update({a: str(b) for a, b in (case["overlay"] or {}).items()})
            got = {}
            if out[0] == "child-failed":
                return f"the child failed before reporting its environment: {out[1]}"
            if out[0] != "-":
                for e in out[0].split(","):
                    a, b = e.split("=")
                    got[bytes.fromhex(a[1:]).decode()] = bytes.fromhex(b[1:]).decode()
            if got != exp:
                diff = {a: (got.get(a), exp.get(a)) for a in set(got) | set(exp) if got.get(a) != exp.get(a)}
                return f"child os.environ differs from parent overlaid with env= (key: got, expected): {diff}"
            if "at_import_same=1" not in out[1]:
                return "the environment seen when the target's module was imported differs from the final one"
            if not out[1].endswith("exit=0"):
                return f"child failed: {out[1]}"
            return None
        if k == "exit":
            for item, o in zip(case["items"], out[:-1]):
                f = dict(x.split("=", 1) for x in o.split(" ", 3)[:3])
                exp = item["n"] if item["mode"] in ("exit", "sysexit") else -item["sig"]
                if f["exitcode"] != str(exp):
                    return f"child {item} reported exitcode {f['exitcode']}, expected {exp}"
                if f["sentinel"] != "1" or f["alive"] != "0":
                    return f"after the end of child {item}: sentinel ready={f['sentinel']}, is_alive={f['alive']}"
                if "before:" in o:
                    b = o.split("before:")[1]
                    if b != "alive=1,exitcode=None,sentinel=0":
                        return f"while child {item} was running: {b}"
            return None
        if k == "main":
            rep = json.loads(out[1][4:])
            if case["method"] == "loky":
                if rep["runs"] != ["__main__"]:
                    return f"the parent's __main__ ran {len(rep['runs'])} times ({rep['runs']}) under the 'loky' start method"
                if rep["rc"] != 0:
                    return f"script without __main__ guard failed under 'loky': rc={rep['rc']} {rep['stderr'][-300:]}"
            return None
        return None

    def nontrivial(self, case, out):
        return True

    def classify(self, case, out):
        k = case["kind"]
        ks = ["kind=" + k]
        if k == "forkexec":
            ks.append("overlay=" + ("none" if case["overlay"] is None else "empty" if not case["overlay"] else "some"))
            if any(v == "" for _, v in (case["overlay"] or [])):
                ks.append("overlay-empty-value")
            if "ValueError" in out[1]:
                ks.append("dup-keep")
        if k == "launch":
            ks += ["proc=" + case["proc"], out[1].split(" ")[0] if len(out) > 1 else "?", "dups=%d" % len(case["dups"])]
            if out[0].endswith("ValueError"):
                ks.append("dup-keep")
        if k == "fds":
            ks.append("markers=%d" % len(case["extra"]))
            ks.append("passed=%d" % sum(e["passed"] for e in case["extra"]))
        if k == "exit":
            ks += ["exit:" + i["mode"] for i in case["items"]]
        if k == "main":
            ks.append(f"main:{case['method']}:{case['use']}")
        return ks

    def shrink_candidates(self, case):
        k = case["kind"]
        if k == "poll" and "range" in case:
            a, n = case["range"]
            if n > 1:
                yield {"kind": "poll", "range": [a, n // 2]}
                yield {"kind": "poll", "range": [a + n // 2, n - n // 2]}
        elif k == "forkexec":
            for key in ("parent", "overlay", "keep", "table"):
                xs = case[key]
                if xs:
                    for i in range(len(xs)):
                        yield dict(case, **{key: xs[:i] + xs[i + 1:]})
        elif k == "launch":
            for key in ("dups", "strays"):
                xs = case[key]
                for i in range(len(xs)):
                    yield dict(case, **{key: xs[:i] + xs[i + 1:]})
        elif k == "fds":
            xs = case["extra"]
            for i in range(len(xs)):
                yield dict(case, extra=xs[:i] + xs[i + 1:])
            if case["pipe"] or case["sock"]:
                yield dict(case, pipe=0, sock=0)
        elif k == "exit":
            xs = case["items"]
            if len(xs) > 1:
                for i in range(len(xs)):
                    yield dict(case, items=[xs[i]])

    # ---- engine ---------------------------------------------------------------------------
    def _run_all(self, cases):
        import traceback
        e2i = [i for i, c in enumerate(cases) if c["kind"] not in E3_KINDS]
        e3i = [i for i, c in enumerate(cases) if c["kind"] in E3_KINDS]
        res = [None] * len(cases)
        for i, r in zip(e2i, self._run_impl([cases[i] for i in e2i])):
            res[i] = r
        if e3i:
            infra = []

            def one(i):
                try:
                    o = self.impl(cases[i])
                except C.Infra as e:
                    infra.append(e)
                    return (["INFRA"], None)
                except Exception:       # noqa: BLE001
                    o = ["HARNESS-EXC " + traceback.format_exc()[-300:].replace("\n", " | ")]
                try:
                    bad = self.oracle(cases[i], o)
                except Exception:       # noqa: BLE001
                    bad = "ORACLE-EXC " + traceback.format_exc()[-300:].replace("\n", " | ")
                return (o, bad)
            with ThreadPoolExecutor(6) as tp:
                for i, r in zip(e3i, tp.map(one, e3i)):
                    res[i] = r
            if infra:
                raise infra[0]
        return res

    def evaluate(self, cases, corr, with_model=True):
        impl = self._run_all(cases)
        model = None
        if with_model:
            drv = C.Driver(self.driver)
            try:
                drv.ensure()
                lines, spans = [], []
                for c, (o, _) in zip(cases, impl):
                    try:
                        ls = self.model_lines(c, o)
                    except Exception:       # noqa: BLE001  (implementation output unusable, e.g. HARNESS-EXC)
                        ls = ["unmodelled"]
                    spans.append((len(lines), len(ls)))
                    lines += ls
                outs = drv.run(lines) if lines else []
                model = []
                for c, (a, n), (o, _) in zip(cases, spans, impl):
                    try:
                        model.append(self.model_project(c, outs[a:a + n], o))
                    except Exception:       # noqa: BLE001
                        model.append(outs[a:a + n])
            except C.Infra as e:
                corr.model_error = str(e)
        for i, case in enumerate(cases):
            out, bad = impl[i]
            corr.evaluations += len(out) if case["kind"] == "poll" else 1
            for k in self.classify(case, out):
                corr.count(k)
            if self.nontrivial(case, out):
                corr.nontrivial(case)
            if bad:
                corr.failures.append({"input": case, "impl": out, "what": bad})
            if model is not None and model[i] != self.impl_project(case, out):
                corr.disagreements.append({"input": case, "model": model[i], "impl": self.impl_project(case, out)})
        return impl, model

    def correspondence(self, ctx, corr):
        corr.rule = self.rule
        cases = list(self.corpus())
        ncorp = len(cases)
        rng = C.rng_for(ctx.seed, self.id, self.name, "gen")
        cases += [self.gen(rng, i) for i in range(self.n_cases[ctx.tier])]
        cases += self.gen_e3(C.rng_for(ctx.seed, self.id, self.name, "e3"), ctx.tier)
        impl, model = self.evaluate(cases, corr)
        corr.extra["corpus_cases"] = ncorp
        corr.extra["real_spawn_scenarios"] = sum(1 for c in cases if c["kind"] in E3_KINDS)
        corr.extra["real_children"] = sum({"fds": 1, "env": 1}.get(c["kind"], len(c.get("items", [])) or c.get("n", 0))
                                          for c in cases if c["kind"] in E3_KINDS)
        for kind in ("forkexec", "launch", "fds", "exit"):
            j = next((i for i, c in enumerate(cases) if c["kind"] == kind and i >= ncorp), None)
            if j is None:
                j = next((i for i, c in enumerate(cases) if c["kind"] == kind), None)
            if j is not None:
                corr.samples.append({"input": cases[j], "impl": self.impl_project(cases[j], impl[j][0]),
                                     "model": None if model is None else model[j]})
        corr.failures = [self.shrink(f, "oracle") for f in corr.failures[:3]] + corr.failures[3:]
        corr.disagreements.sort(key=lambda d: len(json.dumps(d["input"])))

    def search(self, ctx, corr, broken):
        cands = [d["input"] for d in corr.disagreements[:60]]
        extra = []
        for c in cands:
            if c["kind"] not in E3_KINDS:
                extra += list(self.shrink_candidates(c))[:20]
        rng = C.rng_for(ctx.seed, self.id, self.name, "search")
        more = [self.gen(rng, i) for i in range(self.search_cases[ctx.tier])]
        c2 = C.Corr()
        self.evaluate(cands + extra + more, c2, with_model=False)
        corr.extra["search_cases"] = c2.evaluations
        if c2.failures:
            return self.shrink(c2.failures[0], "oracle")
        return None

    def replay_finding(self, ctx, finding):
        w = finding.get("witness")
        if w is None:
            return {"fails": False}
        out = self.impl(w)
        bad = self.oracle(w, out, strict=True)
        return {"fails": bool(bad), "input": w, "impl": self.impl_project(w, out), "what": bad}


PART = SpawnPart()
