"""C09 — get_reusable_executor returns a live, correctly configured singleton (decision model M1R + E1)"""
from ..e1 import ReusePart

PROP = ReusePart("C09", ["C09", "C03", "C01"], ["LokyModel.Props.C09", "LokyModel.Props.C09History"], quick=1500, thorough=30000,
                 families=[("reuse", 3), ("reusecrash", 2), ("reusegrow", 3), ("reusebig", 1), ("reusecb", 1), ("reusecancel", 1), ("reusecbsub", 1), ("reusebigcrash", 1), ("reuseput", 1)])
