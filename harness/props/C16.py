"""C16 — wrap_non_picklable_objects is behaviour-preserving (E2, model M6 `Wrapper`).

A case describes an object (function / instance / class + constructor arguments), a stack of
wrappers (`wrap_non_picklable_objects(x, keep_wrapper)`, innermost first), a number of round trips
and the attribute names to read.  Line 0 of the output observes the *original* bare object, line
1+k what exists after k round trips of the wrapped object (plain `pickle` while it is a wrapper,
cloudpickle once it arrived unwrapped).  The Lean driver predicts every line from line 0's
observations; the oracle compares lines 1.. with line 0 as the property statement demands.

A *history* case (`"hist"` instead of `"trips"`) plays a list of events on ONE live wrapper object:

    ["M", mut]      the wrapped object changes state, through the wrapper (`via: "w"`: a call with a side effect,
                    a method call through the forwarded attribute) or directly (`via: "d"`: on the object the
                    caller still holds / `w._obj`: attribute set/del, closure cell, captured list/dict, module
                    global, `__defaults__`, call, method)
    ["P", src]      `src` = "live": the live wrapper is pickled (again) and the copy received; `src` = j: the j-th
                    received copy is pickled and received
    ["O", src]      observe the live wrapper / the j-th received copy once more
    ["C", j, mut]   the j-th received copy changes state

Line 0 observes the live wrapper; every event adds one line: the live wrapper after an "M", the new copy after a
"P", the observed thing after an "O", the changed copy after a "C".  Observation never changes state (the sample
calls leave `bump` at 0).  The oracle replays the same events on *bare* twins that are never wrapped nor pickled
(a copy's twin is rebuilt from scratch by replaying the state changes its source had seen at the time of the
pickling): every copy must behave like the original **at the time of that pickling** (plus its own later
changes), whatever happened to the original or to other copies since; the live wrapper must behave like the
object in its current state; layers/flags as keep_wrapper says.  The Lean driver plays the same events on the
model's `Session` (`hstep`).
"""
import hashlib
import pickle
import types

from .. import common as C
from ..e2 import E2Prop

# sample calls: positional, defaulted positional, keyword-only (a wrapper dropping **kwargs or *args shows)
SAMPLES = [((2,), {}), ((3, 4), {}), ((5,), {"z": 7}), ((1, 2), {"z": 3}), ((0,), {"y": 6, "z": 1})]
# pool of ordinary attribute names; index = the model's `Name.user i`
POOL = ["p", "q", "r", "m", "tag", "meta", "n", "nope", "extra", "obj", "keep_wrapper", "_obj_", "x_obj"]
RESERVED = ("_obj", "_keep_wrapper")
STATE_FUNC_KINDS = ("counter", "acc", "capdict")       # closures with mutable captured state
DYN_KINDS = ("dynmain", "dynmod")
FUNC_KINDS = ("lambda", "closure", "nested", "recursive", "dynmain", "dynmod") + STATE_FUNC_KINDS
_dyn_counter = [0]


def _tok(x):
    return int(hashlib.sha1(repr(x).encode()).hexdigest()[:10], 16)


# ------------------------------------------------------------------ object factory (JSON spec -> object)

def build_func(spec):
    k, a, b = spec["k"], spec["a"], spec["b"]
    if k == "lambda":
        f = lambda x, y=0, *, z=0, _a=a, _b=b: _a * x + _b + 10 * y + 100 * z  # noqa: E731
    elif k == "closure":
        def make(a, b):
            def f(x, y=0, *, z=0):
                return a * x + b + 10 * y + 100 * z
            return f
        f = make(a, b)
    elif k == "nested":
        def l1(a):
            def l2(b):
                c = a + b

                def l3():
                    def f(x, y=0, *, z=0):
                        return a * x + b + c + 10 * y + 100 * z
                    return f
                return l3()
            return l2
        f = l1(a)(b)
    elif k == "recursive":
        def make(a, b):
            def f(x, y=0, *, z=0):
                if x <= 0:
                    return b + 10 * y + 100 * z
                return a + f(x - 1, y, z=z)
            return f
        f = make(a, b)
    elif k == "counter":
        # a nonlocal counter cell: `bump` is the side effect of a call (the sample calls leave it at 0)
        def make(a, b):
            n = 0

            def f(x, y=0, *, z=0, bump=0):
                nonlocal n
                n += bump
                return a * x + b + 7 * n + 10 * y + 100 * z
            return f
        f = make(a, b)
    elif k == "acc":
        # a captured list
        def make(a, b):
            seen = []

            def f(x, y=0, *, z=0, bump=0):
                if bump:
                    seen.append(bump)
                return a * x + b + sum((i + 2) * v for i, v in enumerate(seen)) + 10 * y + 100 * z
            return f
        f = make(a, b)
    elif k == "capdict":
        # a captured dict
        def make(a, b):
            state = {}

            def f(x, y=0, *, z=0, bump=0):
                if bump:
                    state["n"] = state.get("n", 0) + bump
                return a * x + b + sum((len(kk) + 2) * v for kk, v in sorted(state.items())) + 10 * y + 100 * z
            return f
        f = make(a, b)
    elif k in ("dynmain", "dynmod"):
        _dyn_counter[0] += 1
        name = "__main__" if k == "dynmain" else f"_verif_dyn_{_dyn_counter[0]}"
        mod = types.ModuleType(name)
        src = (f"K = {a}\n"
               "def helper(v):\n    return v * K\n"
               f"def verif_dyn_f(x, y=0, *, z=0):\n    return helper(x) + {b} + 10 * y + 100 * z\n")
        exec(compile(src, f"<{name}>", "exec"), mod.__dict__)
        f = mod.verif_dyn_f
    else:
        raise ValueError(k)
    for n, v in spec.get("attrs", {}).items():
        setattr(f, n, v)
    return f


def build_class(spec):
    a, b, callvia, extras = spec["a"], spec["b"], spec["callvia"], spec.get("attrs", {})

    class Base:
        def __init__(self, p, q=2, *, r=3):
            self.p, self.q, self.r = p, q, r
            for k, v in extras.items():
                setattr(self, k, v)

        def m(self, x):
            return self.p * x + self.q + a

        def bump(self):
            """what a task does to an object it received: change it, then send it back"""
            self.p = self.p + 1
            return self.p

        def put(self, name, value):
            """a method with arguments that updates the state"""
            setattr(self, name, value)
            return value

        def __getstate__(self):
            return dict(self.__dict__)

        def __setstate__(self, st):
            self.__dict__.update(st)
            self.__dict__["_gen"] = st.get("_gen", 0) + 1

    def call(self, x, y=0, *, z=0, bump=0):
        self.p = self.p + bump       # the side effect of a call (the sample calls leave `bump` at 0)
        return self.p * x + self.r + b + 10 * y + 100 * z

    if callvia == "base":
        class Mid(Base):
            __call__ = call

        class Thing(Mid):
            pass
    elif callvia == "own":
        class Thing(Base):
            __call__ = call
    elif callvia == "objcall":
        # `__call__` is a callable object, not a plain function (no `self` binding: it is not a descriptor)
        class Helper:
            def __init__(self, k):
                self.k = k

            def __call__(self, x, y=0, *, z=0):
                return 7 * x + self.k + 10 * y + 100 * z

        class Thing(Base):
            __call__ = Helper(b)
    else:
        class Thing(Base):
            pass
    return Thing


def ctor_args(spec):
    c = spec.get("ctor", {"args": [1], "kw": {}})
    return list(c["args"]), dict(c["kw"])


def build_original(case):
    """the bare object the property compares against"""
    spec = case["obj"]
    if spec["k"] in FUNC_KINDS:
        return build_func(spec)
    cls = build_class(spec)
    args, kw = ctor_args(spec)
    return cls(*args, **kw)


def original_at(case, k):
    """the bare object after the mutations applied before round trips 0..k-1"""
    o = build_original(case)
    for j in case.get("bump", []):
        if j < k:
            o.bump()
    return o


def build_wrapped2(case):
    """(the wrapped object, the bare object the caller still holds - None when a wrapped class built it)"""
    from loky import wrap_non_picklable_objects as W
    spec = case["obj"]
    layers = case["layers"]
    if spec["k"] == "class":
        cls = build_class(spec)
        args, kw = ctor_args(spec)
        assert layers and layers[0][0] == "k"
        v = W(cls, keep_wrapper=bool(layers[0][1]))(*args, **kw)
        rest = layers[1:]
        held = None
    else:
        v = held = build_original(case)
        rest = layers
    for kind, keep in rest:
        assert kind == "n"
        v = W(v, keep_wrapper=bool(keep))
    return v, held


def build_wrapped(case):
    return build_wrapped2(case)[0]


# ------------------------------------------------------------------ state changes (history cases)

def core_of(x):
    """the bare object at the bottom of a stack of wrappers (through the instance dicts, not through forwarding)"""
    base_t, _ = _wrapper_types()
    while isinstance(x, base_t):
        x = x.__dict__["_obj"]
    return x


def _cell(f, name):
    return f.__closure__[f.__code__.co_freevars.index(name)]


def apply_mut(x, mut, held=None):
    """change the state of the object inside `x` (a wrapper stack or a bare object).  via "w": through `x` itself
    (forwarded call / forwarded method); via "d": directly on the bare object (`held` if the caller has it)."""
    core = held if held is not None else core_of(x)
    t = x if mut["via"] == "w" else core
    op, name, val = mut["op"], mut.get("name"), mut.get("val")
    if op == "call":
        try:
            t(0, bump=val)
        except Exception:  # noqa: BLE001
            pass        # the body may fail after its side effect (an attribute it reads was deleted): the state is what counts
    elif op == "bump":
        t.bump()
    elif op == "put":
        t.put(name, val)
    elif op == "set":
        setattr(core, name, val)
    elif op == "del":
        if name in getattr(core, "__dict__", {}):
            delattr(core, name)
    elif op == "cell":
        if "n" in core.__code__.co_freevars:
            _cell(core, "n").cell_contents = val
        elif "seen" in core.__code__.co_freevars:
            _cell(core, "seen").cell_contents.append(val)
        else:
            _cell(core, "state").cell_contents[name] = val
    elif op == "glob":
        core.__globals__["K"] = val
    elif op == "defaults":
        core.__defaults__ = (val,)
    else:
        raise ValueError(op)


def replay_twin(case, log):
    """a bare twin (never wrapped, never pickled) of the object, after the state changes of `log`"""
    o = build_original(case)
    for mut in log:
        apply_mut(o, mut)
    return o


def twin_lines(case):
    """history case: what the bare twins show at every line (the reference the property compares with)"""
    live_log, logs = [], []
    live = replay_twin(case, [])
    twins = []
    exp = [observe(live, case)]
    for op in case["hist"]:
        if op[0] == "M":
            live_log.append(op[1])
            apply_mut(live, op[1])
            exp.append(observe(live, case))
        elif op[0] == "P":
            src_log = live_log if op[1] == "live" else logs[op[1]]
            logs.append(list(src_log))
            twins.append(replay_twin(case, logs[-1]))      # rebuilt from scratch: state at the time of the pickling
            exp.append(observe(twins[-1], case))
        elif op[0] == "O":
            exp.append(observe(live if op[1] == "live" else twins[op[1]], case))
        elif op[0] == "C":
            logs[op[1]].append(op[2])
            apply_mut(twins[op[1]], op[2])
            exp.append(observe(twins[op[1]], case))
        else:
            raise ValueError(op)
    return exp


def hist_ok(hist):
    """well-formed: copies are referenced only once they exist"""
    n = 0
    for op in hist:
        if op[0] in ("P", "O"):
            if op[1] != "live" and not (isinstance(op[1], int) and 0 <= op[1] < n):
                return False
            n += op[0] == "P"
        elif op[0] == "C":
            if not 0 <= op[1] < n:
                return False
        elif op[0] != "M":
            return False
    return True


def drop_op(hist, i):
    """the history without event i (a dropped pickling takes the events on its copy with it; later copies renumbered)"""
    if hist[i][0] != "P":
        return hist[:i] + hist[i + 1:]
    k = sum(1 for op in hist[:i] if op[0] == "P")
    out = list(hist[:i])
    for op in hist[i + 1:]:
        ref = op[1] if op[0] in ("P", "O", "C") else None
        if isinstance(ref, int):
            if ref == k:
                if op[0] == "P":
                    return None          # a copy of the dropped copy: give up on this candidate
                continue
            if ref > k:
                op = [op[0], ref - 1] + list(op[2:])
        out.append(op)
    return out


# ------------------------------------------------------------------ observation

def _wrapper_types():
    import loky.cloudpickle_wrapper as m
    return m.CloudpickledObjectWrapper, m.CallableObjectWrapper


def observe(x, case):
    base_t, call_t = _wrapper_types()
    layers, cur = [], x
    while isinstance(cur, base_t):
        t = type(cur)
        if t is call_t:
            kind = "callable"
        elif t is base_t:
            kind = "object"
        else:
            kind = "classInstC" if isinstance(cur, call_t) else "classInst"
        layers.append(f"{kind}:{1 if cur.__dict__.get('_keep_wrapper') else 0}")
        cur = cur.__dict__.get("_obj")
    core = cur
    res = []
    for args, kw in SAMPLES:
        try:
            res.append(x(*args, **kw))
        except TypeError as e:
            res.append("TypeError" if "not callable" in str(e) else "TypeError:" + str(e)[:60])
        except Exception as e:  # noqa: BLE001
            res.append(type(e).__name__)
    call = "TypeError" if all(r == "TypeError" for r in res) else str(_tok(res))
    if case["obj"]["k"] in FUNC_KINDS:
        gen = "-"
    else:
        gen = str(getattr(core, "__dict__", {}).get("_gen", 0))
    reads = []
    for name in case["reads"]:
        try:
            v = getattr(x, name)
        except AttributeError:
            reads.append("AE")
            continue
        except RecursionError:
            reads.append("RecursionError")
            continue
        if isinstance(x, base_t) and name == "_obj" and v is x.__dict__.get("_obj"):
            reads.append("inner")
        elif isinstance(x, base_t) and name == "_keep_wrapper" and type(v) is bool:
            reads.append(f"flag{int(v)}")
        elif callable(v):
            try:
                reads.append("v%d" % _tok(("call", v(3))))
            except Exception as e:  # noqa: BLE001
                reads.append("v%d" % _tok(("exc", type(e).__name__)))
        else:
            reads.append("v%d" % _tok(v))
    return (f"layers={'/'.join(layers) or '-'} callable={int(callable(x))} call={call} gen={gen} "
            f"reads={','.join(reads) or '-'}")


def parse(line):
    return dict(kv.split("=", 1) for kv in line.split(" "))


def name_token(n):
    return n if n in RESERVED else f"u:{POOL.index(n)}"


# ------------------------------------------------------------------ the property

class Prop(E2Prop):
    id = "C16"
    lean_modules = ["LokyModel.Props.C16"]
    driver = "wrapper_driver"
    n_cases = {"quick": 20000, "thorough": 200000}
    search_cases = {"quick": 10000, "thorough": 100000}
    rule = ("case = (object, wrapper stack, round trips, attribute reads): functions (lambda, closure, 3-level nested, "
            "recursive, defined in a dynamic `__main__` / unimportable module) with attributes; callable (own or inherited "
            "__call__) and non-callable instances of local classes; wrapped classes with positional/keyword constructor "
            "arguments; 1-2 wrapper layers with both keep_wrapper values; 1-3 round trips. "
            "History cases (about 45%): 2-9 events on ONE live wrapper - state change of the wrapped object through the "
            "wrapper (call with a side effect, forwarded method with/without arguments) or directly (attribute set/del, "
            "nonlocal counter cell, captured list/dict, module global of a dynamic module, __defaults__, call, method), "
            "pickling of the live wrapper (up to 5 times) or of a received copy, re-observation of the live wrapper / an "
            "earlier copy, state change of a received copy - on closures with mutable captured state, functions with "
            "attributes, callable/non-callable instances and instances made through wrapped classes. "
            "Non-trivial = plain pickle of the bare object fails (always, by construction) and the case has >= 1 round "
            "trip / pickling; distinct by full input.")
    assumptions = [
        "cloudpickle's round trip of a bare object preserves its behaviour (hypothesis `Faithful rt`); the harness's objects are cloudpickle-serialisable",
        "attribute reads = the object's own data/method attributes; names every Python object answers itself (__class__, __dict__, __doc__, __module__, ...) are outside the property (theorem hypothesis `typeLevel a = false`) and are not generated",
        "instances of a class are callable iff a class of its MRO defines __call__ (hypothesis `hdc` of class_wrapper_instances)",
        "once an object has arrived unwrapped (keep_wrapper=False) further round trips are made with cloudpickle, as in the model's `trip`",
        "calls are compared on 5 sample argument lists (positional, defaulted, keyword-only); the model treats the call behaviour as one opaque token",
        "histories: a state change keeps callable(obj) (hypothesis `StableOps`); the state of an object is what its own attributes, closure cells, captured containers, referenced module globals and __defaults__ hold - state shared at class level is not changed (cloudpickle re-uses a dynamic class inside one process)",
        "attribute WRITES through the wrapper (`w.x = 1`) are not part of the statement (it speaks of reads and calls) and are not generated: the wrapper has no __setattr__, the write lands on the wrapper itself",
    ]

    # -- cases ---------------------------------------------------------------------------
    def corpus(self):
        cs = []

        def add(obj, layers, trips=2, reads=("p", "q", "r", "m", "tag", "nope")):
            cs.append({"obj": obj, "layers": [list(l) for l in layers], "trips": trips, "reads": list(reads)})
        for k in FUNC_KINDS:
            for keep in (0, 1):
                add({"k": k, "a": 3, "b": 1, "attrs": {"tag": 7}}, [("n", keep)], 3, ("tag", "nope"))
        for callvia in ("none", "own", "base"):
            for keep in (0, 1):
                inst = {"k": "inst", "callvia": callvia, "a": 2, "b": 5, "attrs": {"tag": 4},
                        "ctor": {"args": [6], "kw": {"q": 9, "r": 8}}}
                add(inst, [("n", keep)], 3)
                # regression for the repaired defect: instance made through a wrapped callable class, before any round trip
                add(dict(inst, k="class"), [("k", keep)], 0)
                add(dict(inst, k="class"), [("k", keep)], 3)
                add(dict(inst, k="class", ctor={"args": [6, 4], "kw": {}}), [("k", keep)], 1)
                add(dict(inst, k="class", ctor={"args": [], "kw": {"p": 5, "r": 2}}), [("k", keep)], 1)
        for k0 in (0, 1):
            for k1 in (0, 1):
                add({"k": "closure", "a": 2, "b": 2, "attrs": {}}, [("n", k0), ("n", k1)], 3, ("tag",))
                add({"k": "class", "callvia": "own", "a": 1, "b": 1, "attrs": {}, "ctor": {"args": [2], "kw": {}}},
                    [("k", k0), ("n", k1)], 3)
                add({"k": "inst", "callvia": "none", "a": 1, "b": 1, "attrs": {}, "ctor": {"args": [2], "kw": {}}},
                    [("n", k0), ("n", k1)], 2)
        for keep in (0, 1):
            oc = {"k": "inst", "callvia": "objcall", "a": 2, "b": 5, "attrs": {"tag": 4}, "ctor": {"args": [6], "kw": {"q": 9, "r": 8}}}
            add(oc, [("n", keep)], 2)
            add(dict(oc, k="class"), [("k", keep)], 2)
            # the object is changed between two round trips (a task increments a counter and sends the object back)
            cs.append({"obj": dict(oc, callvia="own"), "layers": [["n", keep]], "trips": 3, "reads": ["p", "m", "tag"], "bump": [1, 2]})
            cs.append({"obj": dict(oc, callvia="none", k="class"), "layers": [["k", keep]], "trips": 2, "reads": ["p", "q"], "bump": [0, 1]})
        # 0 round trips (pure forwarding), no reads
        add({"k": "lambda", "a": 1, "b": 0, "attrs": {}}, [("n", 1)], 0, ())
        return cs + self.hist_corpus()

    def hist_corpus(self):
        """histories on one wrapper: pickle / change / pickle again / look at the earlier copy / change a copy / ..."""
        cs = []

        def addh(obj, layers, hist, reads):
            assert hist_ok(hist), hist
            cs.append({"obj": obj, "layers": [list(l) for l in layers], "reads": list(reads), "hist": hist})
        W, D = "w", "d"
        for keep in (0, 1):
            for k in STATE_FUNC_KINDS:
                f = {"k": k, "a": 3, "b": 1, "attrs": {"tag": 7}}
                addh(f, [("n", keep)],
                     [["P", "live"], ["M", {"via": W, "op": "call", "val": 5}], ["P", "live"], ["O", 0],
                      ["M", {"via": D, "op": "cell", "name": "n", "val": 4}], ["P", "live"], ["O", 1],
                      ["C", 0, {"via": W, "op": "call", "val": 2}], ["O", "live"], ["P", 0], ["P", "live"]],
                     ("tag", "nope"))
                addh(f, [("n", keep)],
                     [["P", "live"], ["M", {"via": D, "op": "call", "val": 5}], ["P", "live"],
                      ["M", {"via": D, "op": "set", "name": "tag", "val": 8}], ["P", "live"],
                      ["M", {"via": D, "op": "del", "name": "tag"}], ["P", "live"], ["O", 2]], ("tag", "nope"))
            for k in DYN_KINDS + ("lambda", "recursive"):
                f = {"k": k, "a": 2, "b": 4, "attrs": {}}
                h = [["P", "live"], ["M", {"via": D, "op": "defaults", "val": 3}], ["P", "live"],
                     ["M", {"via": D, "op": "set", "name": "meta", "val": 1}], ["P", "live"], ["O", 0], ["O", 1]]
                if k in DYN_KINDS:
                    h += [["M", {"via": D, "op": "glob", "val": 9}], ["P", "live"], ["O", 2],
                          ["C", 3, {"via": D, "op": "glob", "val": 1}], ["O", "live"], ["P", "live"]]
                addh(f, [("n", keep)], h, ("meta", "nope"))
            for kind in ("inst", "class"):
                for callvia in ("none", "own", "base", "objcall"):
                    o = {"k": kind, "callvia": callvia, "a": 2, "b": 5, "attrs": {"tag": 4},
                         "ctor": {"args": [6], "kw": {"q": 9}}}
                    first = "k" if kind == "class" else "n"
                    h = [["P", "live"], ["M", {"via": W, "op": "bump"}], ["P", "live"], ["O", 0],
                         ["M", {"via": D, "op": "set", "name": "q", "val": 1}], ["P", "live"],
                         ["M", {"via": W, "op": "put", "name": "extra", "val": 3}], ["P", "live"], ["O", 1], ["O", 2],
                         ["C", 1, {"via": W, "op": "bump"}], ["O", "live"], ["P", 1], ["P", "live"],
                         ["M", {"via": D, "op": "del", "name": "tag"}], ["P", "live"], ["O", 3]]
                    if callvia in ("own", "base"):
                        h = [["P", "live"], ["M", {"via": W, "op": "call", "val": 3}], ["P", "live"]] + \
                            [[op[0], op[1] + 2] + op[2:] if isinstance(op[1], int) else op for op in h]
                    addh(o, [(first, keep)], h, ("p", "q", "m", "tag", "extra", "nope"))
            # two layers, every flag combination of the outer layer
            for k1 in (0, 1):
                addh({"k": "counter", "a": 1, "b": 0, "attrs": {}}, [("n", keep), ("n", k1)],
                     [["P", "live"], ["M", {"via": W, "op": "call", "val": 1}], ["P", "live"], ["P", 1], ["O", 0]], ("nope",))
                addh({"k": "class", "callvia": "own", "a": 1, "b": 1, "attrs": {}, "ctor": {"args": [2], "kw": {}}},
                     [("k", keep), ("n", k1)],
                     [["P", "live"], ["M", {"via": W, "op": "bump"}], ["P", "live"], ["P", 1], ["O", 0]], ("p", "m"))
        # no pickling at all: only forwarding to the current state
        addh({"k": "acc", "a": 1, "b": 0, "attrs": {}}, [("n", 1)],
             [["M", {"via": W, "op": "call", "val": 2}], ["M", {"via": D, "op": "cell", "val": 3}], ["O", "live"]], ())
        return cs

    def reserved_cases(self):
        """D12: the object has an attribute called `_obj` / `_keep_wrapper`"""
        cs = []
        for name in RESERVED:
            cs.append({"obj": {"k": "inst", "callvia": "none", "a": 1, "b": 1, "attrs": {name: 5},
                               "ctor": {"args": [1], "kw": {}}},
                       "layers": [["n", 1]], "trips": 1, "reads": ["p", name]})
        cs.append({"obj": {"k": "closure", "a": 1, "b": 1, "attrs": {"_obj": 5}},
                   "layers": [["n", 1]], "trips": 0, "reads": ["_obj"]})
        return cs

    hist_share = 0.45

    def gen(self, rng, i):
        if rng.random() < self.hist_share:
            return self.gen_hist(rng, i)
        return self.gen_chain(rng, i)

    def gen_mut(self, rng, obj, allow_w=True):
        """one state change fit for the object"""
        k = obj["k"]
        via = rng.choice("wd") if allow_w else "d"
        names = [n for n in POOL if n != "nope"]
        if k in FUNC_KINDS:
            ops = ["set", "set", "del", "defaults"]
            if k in STATE_FUNC_KINDS:
                ops += ["call"] * 5 + ["cell"] * 3
            if k in DYN_KINDS:
                ops += ["glob"] * 4
            op = rng.choice(ops)
            if op == "call":
                return {"via": via, "op": "call", "val": rng.randint(1, 9)}
            if op == "cell":
                return {"via": "d", "op": "cell", "name": rng.choice(["n", "kk", "z9"]), "val": rng.randint(1, 30)}
            if op in ("glob", "defaults"):
                return {"via": "d", "op": op, "val": rng.randint(-4, 30)}
            own = list(obj.get("attrs", {}))
            name = rng.choice(own) if own and rng.random() < 0.6 else rng.choice(names)
            return {"via": "d", "op": op, "name": name, "val": rng.randint(0, 99)}
        ops = ["bump"] * 4 + ["put"] * 3 + ["set"] * 3 + ["del"]
        if obj["callvia"] in ("own", "base"):
            ops += ["call"] * 4
        op = rng.choice(ops)
        if op == "bump":
            return {"via": via, "op": "bump"}
        if op == "call":
            return {"via": via, "op": "call", "val": rng.randint(1, 9)}
        own = list(obj.get("attrs", {})) + ["p", "q", "r"]
        if op == "del":
            return {"via": "d", "op": "del", "name": rng.choice([n for n in own if n != "p"])}
        name = rng.choice(own) if rng.random() < 0.6 else rng.choice(names)
        return {"via": via if op == "put" else "d", "op": op, "name": name, "val": rng.randint(0, 99)}

    def gen_hist(self, rng, i):
        a, b = rng.randint(-3, 9), rng.randint(-5, 20)
        attrs = {n: rng.randint(0, 99) for n in rng.sample(["tag", "meta", "n", "extra", "obj", "keep_wrapper", "_obj_", "x_obj"],
                                                          rng.choice([0, 1, 1, 2]))}
        r = rng.random()
        if r < 0.35:
            obj = {"k": rng.choice(STATE_FUNC_KINDS), "a": a, "b": b, "attrs": attrs}
        elif r < 0.5:
            obj = {"k": rng.choice(FUNC_KINDS), "a": a, "b": b, "attrs": attrs}
        else:
            nargs = rng.choice([0, 1, 1, 2])
            kw = {k: rng.randint(0, 9) for k in rng.sample(["p", "q", "r"][nargs:], rng.randint(0, 3 - nargs))}
            if nargs == 0:
                kw["p"] = rng.randint(0, 9)
            obj = {"k": "inst" if r < 0.75 else "class", "callvia": rng.choice(["none", "own", "own", "base", "objcall"]),
                   "a": a, "b": b, "attrs": attrs, "ctor": {"args": [rng.randint(0, 9) for _ in range(nargs)], "kw": kw}}
        first = "k" if obj["k"] == "class" else "n"
        layers = [[first, rng.randint(0, 1)]]
        if rng.random() < 0.25:
            layers.append(["n", rng.randint(0, 1)])
        hist, ncopies, nlive = [], 0, 0
        for _ in range(rng.randint(1, 7)):
            x = rng.random()
            if x < 0.35:
                hist.append(["M", self.gen_mut(rng, obj)])
            elif x < 0.65 and nlive < 5:
                hist.append(["P", "live"])
                ncopies += 1
                nlive += 1
            elif x < 0.72:
                hist.append(["O", "live"])
            elif ncopies == 0:
                hist.append(["M", self.gen_mut(rng, obj)])
            elif x < 0.82:
                hist.append(["O", rng.randrange(ncopies)])
            elif x < 0.91:
                hist.append(["C", rng.randrange(ncopies), self.gen_mut(rng, obj)])
            else:
                hist.append(["P", rng.randrange(ncopies)])
                ncopies += 1
        if rng.random() < 0.8:
            # make sure the same live wrapper is pickled, its object changed, and pickled again
            if not any(op == ["P", "live"] for op in hist):
                # the new first copy takes number 0, the others move up
                hist = [["P", "live"]] + [[op[0], op[1] + 1] + op[2:] if op[0] in "POC" and isinstance(op[1], int) else op
                                          for op in hist]
            hist.append(["M", self.gen_mut(rng, obj)])
            hist.append(["P", "live"])
            if rng.random() < 0.4:
                hist.append(["O", rng.randrange(sum(1 for op in hist if op[0] == "P"))])
        if not hist_ok(hist):
            hist = [op for op in hist if op[0] == "M" or op[1] == "live"]
        names = list(attrs) + ["nope"]
        if obj["k"] not in FUNC_KINDS:
            names += ["p", "q", "r", "m"]
        touched = []
        for op in hist:
            m = op[1] if op[0] == "M" else op[2] if op[0] == "C" else None
            if m and m["op"] in ("set", "put", "del") and m["name"] not in touched:
                touched.append(m["name"])
        rest = [n for n in names if n not in touched]
        reads = touched[:4] + rng.sample(rest, rng.randint(0, min(3, len(rest))))
        rng.shuffle(reads)
        return {"obj": obj, "layers": layers, "reads": reads, "hist": hist}

    def gen_chain(self, rng, i):
        r = rng.random()
        a, b = rng.randint(-3, 9), rng.randint(-5, 20)
        attrs = {n: rng.randint(0, 99) for n in rng.sample(["tag", "meta", "n", "extra", "obj", "keep_wrapper", "_obj_", "x_obj"],
                                                          rng.choice([0, 1, 1, 2, 3]))}
        d12 = rng.random() < 0.03
        if d12:
            attrs[rng.choice(RESERVED)] = rng.randint(2, 99)
        if r < 0.45:
            obj = {"k": rng.choice(FUNC_KINDS), "a": a, "b": b, "attrs": attrs}
        else:
            nargs = rng.choice([0, 1, 1, 2])
            kw = {k: rng.randint(0, 9) for k in rng.sample(["p", "q", "r"][nargs:], rng.randint(0, 3 - nargs))}
            if nargs == 0:
                kw["p"] = rng.randint(0, 9)
            obj = {"k": "inst" if r < 0.7 else "class", "callvia": rng.choice(["none", "own", "base", "objcall"]), "a": a, "b": b,
                   "attrs": attrs, "ctor": {"args": [rng.randint(0, 9) for _ in range(nargs)], "kw": kw}}
        first = "k" if obj["k"] == "class" else "n"
        layers = [[first, rng.randint(0, 1)]]
        if rng.random() < 0.3:
            layers.append(["n", rng.randint(0, 1)])
        trips = rng.choice([0, 1, 1, 2, 2, 3])
        names = [n for n in attrs if n not in RESERVED] + ["nope"]
        if obj["k"] not in FUNC_KINDS:
            names += ["p", "q", "r", "m"]
        reads = rng.sample(names, rng.randint(1, min(5, len(names))))
        reads += [n for n in attrs if n in RESERVED]
        case = {"obj": obj, "layers": layers, "trips": trips, "reads": reads}
        if obj["k"] not in FUNC_KINDS and trips >= 1 and rng.random() < 0.4:
            case["bump"] = sorted(rng.sample(range(trips), rng.randint(1, trips)))
        return case

    # -- model ---------------------------------------------------------------------------
    @staticmethod
    def _head(line, case, track=True):
        first = parse(line)
        vals = first["reads"].split(",") if first["reads"] != "-" else []
        attrs = [f"{name_token(n)}={v[1:]}" for n, v in zip(case["reads"], vals) if v.startswith("v")]
        calltok = "0" if first["call"] == "TypeError" else first["call"]
        h = f"{first['callable']} {calltok} "
        if track:
            h += ("0" if first["gen"] == "-" else "1") + " "
        return h + ("/".join(attrs) or "-")

    def _layer_tokens(self, case):
        layers = []
        for kind, keep in case["layers"]:
            if kind == "n":
                layers.append(f"n{keep}")
            else:
                layers.append(f"k{keep}{0 if case['obj']['callvia'] == 'none' else 1}")
        return ",".join(layers)

    def model_lines_hist(self, case):
        """the events, with the state of the bare twin (observed on bare objects only) after every state change"""
        exp = twin_lines(case)
        reads = ",".join(name_token(n) for n in case["reads"]) or "-"
        lines = [f"hnew {self._head(exp[0], case)} {self._layer_tokens(case)} {reads}"]
        for op, e in zip(case["hist"], exp[1:]):
            if op[0] == "M":
                lines.append(f"hmut {self._head(e, case, track=False)}")
            elif op[0] == "P":
                lines.append(f"hpickle {op[1]}")
            elif op[0] == "O":
                lines.append(f"hobs {op[1]}")
            else:
                lines.append(f"hcmut {op[1]} {self._head(e, case, track=False)}")
        return lines

    def model_lines(self, case):
        if "hist" in case:
            return self.model_lines_hist(case)

        def head_of(k):
            first = parse(observe(original_at(case, k), case))
            vals = first["reads"].split(",") if first["reads"] != "-" else []
            attrs = [f"{name_token(n)}={v[1:]}" for n, v in zip(case["reads"], vals) if v.startswith("v")]
            calltok = "0" if first["call"] == "TypeError" else first["call"]
            track = "0" if first["gen"] == "-" else "1"
            return f"{first['callable']} {calltok} {track} {'/'.join(attrs) or '-'}"
        reads = ",".join(name_token(n) for n in case["reads"]) or "-"
        layers = []
        for kind, keep in case["layers"]:
            if kind == "n":
                layers.append(f"n{keep}")
            else:
                layers.append(f"k{keep}{0 if case['obj']['callvia'] == 'none' else 1}")
        lines = [f"stage 0 {head_of(0)} - {reads}"]
        for k in range(case["trips"] + 1):
            lines.append(f"stage {k} {head_of(k)} {','.join(layers)} {reads}")
        return lines

    # -- implementation ------------------------------------------------------------------
    def impl_hist(self, case):
        import cloudpickle
        base_t, _ = _wrapper_types()

        def roundtrip(x):
            return pickle.loads(pickle.dumps(x)) if isinstance(x, base_t) else cloudpickle.loads(cloudpickle.dumps(x))
        try:
            live, held = build_wrapped2(case)
        except Exception as e:  # noqa: BLE001
            return [f"ERR:wrap:{type(e).__name__}"]
        out, got = [observe(live, case)], []
        for op in case["hist"]:
            stage = "pickle" if op[0] == "P" else "mutate" if op[0] in "MC" else "observe"
            try:
                if op[0] == "M":
                    apply_mut(live, op[1], held)
                    x = live
                elif op[0] == "P":
                    got.append(roundtrip(live if op[1] == "live" else got[op[1]]))
                    x = got[-1]
                elif op[0] == "O":
                    x = live if op[1] == "live" else got[op[1]]
                else:
                    apply_mut(got[op[1]], op[2])
                    x = got[op[1]]
                stage = "observe"
                out.append(observe(x, case))
            except Exception as e:  # noqa: BLE001
                out.append(f"ERR:{stage}:{type(e).__name__}")
                break
        return out

    def impl(self, case):
        if "hist" in case:
            return self.impl_hist(case)
        import cloudpickle
        base_t, _ = _wrapper_types()
        out = [observe(build_original(case), case)]
        try:
            v = build_wrapped(case)
        except Exception as e:  # noqa: BLE001
            return out + [f"ERR:wrap:{type(e).__name__}"]
        out.append(observe(v, case))
        for k in range(case["trips"]):
            try:
                if k in case.get("bump", []):
                    v.bump()                     # the holder changes the object between two trips
                if isinstance(v, base_t):
                    v = pickle.loads(pickle.dumps(v))
                else:
                    v = cloudpickle.loads(cloudpickle.dumps(v))
            except Exception as e:  # noqa: BLE001
                out.append(f"ERR:pickle:{type(e).__name__}")
                break
            out.append(observe(v, case))
        return out

    # -- oracle (from the statement of C16; does not use the model) -------------------------
    def oracle_hist(self, case, out):
        """every copy behaves like the original at the time of its pickling (then follows its own changes only),
        the live wrapper like the object in its current state; wrapped iff keep_wrapper"""
        if len(out) != len(case["hist"]) + 1:
            return "missing lines"
        exp = twin_lines(case)                      # bare twins, never wrapped, never pickled
        keeps = [int(k) for _, k in case["layers"]][::-1]
        kept = [f for f in keeps if f]
        nmut, born, ncopies = 0, [], 0              # state changes of the original so far; per copy: (source, nmut at its pickling)
        for i, (line, e) in enumerate(zip(out, exp)):
            op = case["hist"][i - 1] if i else ["O", "live"]
            if op[0] == "M":
                nmut += 1
                what = f"the live wrapper after state change #{nmut} ({op[1]['op']}, via {'the wrapper' if op[1]['via'] == 'w' else 'the object'})"
                is_live = True
            elif op[0] == "P":
                born.append((op[1], nmut))
                what = (f"copy #{ncopies} = pickling of " + ("the live wrapper" if op[1] == "live" else f"copy #{op[1]}") +
                        (f" after {nmut} state change(s) of the original and {sum(1 for b in born[:-1] if b[0] == 'live')} earlier pickling(s) of it"
                         if op[1] == "live" else ""))
                ncopies += 1
                is_live = False
            elif op[0] == "O":
                is_live = op[1] == "live"
                what = "the live wrapper" if is_live else (f"copy #{op[1]} looked at again ({nmut - born[op[1]][1]} state change(s) of the "
                                                           f"original since its pickling)")
            else:
                is_live = False
                what = f"copy #{op[1]} after a state change of its own"
            st, want = parse(line), parse(e)
            ls = [] if st["layers"] == "-" else st["layers"].split("/")
            flags = [int(l.split(":")[1]) for l in ls]
            if flags != (keeps if is_live else kept):
                return f"{what}: wrapper flags {flags}, keep_wrapper demands {keeps if is_live else kept}"
            ref = "the object's in its current state" if is_live else "the original's at the time of that pickling"
            if st["callable"] != want["callable"]:
                return f"{what}: callable()={st['callable']}, {ref} is {want['callable']}"
            if st["call"] != want["call"]:
                return f"{what}: results of the sample calls differ from {ref}"
            r0 = want["reads"].split(",") if want["reads"] != "-" else []
            r1 = st["reads"].split(",") if st["reads"] != "-" else []
            for name, x0, x1 in zip(case["reads"], r0, r1):
                if x0 != x1:
                    return f"{what}: attribute {name!r} reads {x1}, {ref} reads {x0}"
        return None

    def oracle(self, case, out):
        for line in out:
            if line.startswith("ERR") or line.startswith("HARNESS-EXC"):
                return f"the wrapper did not survive construction / a plain-pickle round trip / forwarding a call: {line}"
        if "hist" in case:
            return self.oracle_hist(case, out)
        if len(out) != case["trips"] + 2:
            return "missing stages"
        orig = parse(out[0])
        if orig["layers"] != "-":
            return "harness: original is a wrapper"
        keeps = [int(k) for _, k in case["layers"]]
        d12 = None
        for k, line in enumerate(out[1:]):
            st = parse(line)
            if case.get("bump"):
                orig = parse(observe(original_at(case, k), case))
            ls = [] if st["layers"] == "-" else st["layers"].split("/")
            flags = [int(l.split(":")[1]) for l in ls]
            if k == 0:
                if flags != keeps[::-1]:
                    return f"before any round trip: wrapper layers {flags}, requested {keeps[::-1]}"
            else:
                want = [f for f in keeps[::-1] if f]
                if flags != want:
                    return (f"after {k} round trip(s): arrives with wrapper flags {flags}, keep_wrapper demands {want} "
                            f"(wrapped iff keep_wrapper)")
            if st["callable"] != orig["callable"]:
                return f"after {k} round trip(s): callable()={st['callable']}, the object's is {orig['callable']}"
            if st["call"] != orig["call"]:
                return f"after {k} round trip(s): results of the sample calls differ from the object's"
            r0 = orig["reads"].split(",") if orig["reads"] != "-" else []
            r1 = st["reads"].split(",") if st["reads"] != "-" else []
            for name, x0, x1 in zip(case["reads"], r0, r1):
                if x0 != x1:
                    msg = f"after {k} round trip(s): attribute {name!r} reads {x1}, the object's reads {x0}"
                    if name in RESERVED:
                        d12 = d12 or ("[D12] " + msg)
                    else:
                        return msg
        return d12

    # -- known finding D12 -------------------------------------------------------------------
    @staticmethod
    def reserved_attr(case):
        """delimiting predicate of D12: the wrapped object has an attribute named _obj / _keep_wrapper"""
        return any(n in RESERVED for n in case["obj"].get("attrs", {}))

    def _split_known(self, ctx, failures, corr):
        listed = {f["id"] for f in getattr(ctx, "known", [])}
        keep = []
        for f in failures:
            if "D12" in listed and str(f["what"]).startswith("[D12]") and self.reserved_attr(f["input"]):
                corr.known_hits["D12"] = corr.known_hits.get("D12", 0) + 1
            else:
                keep.append(f)
        return keep

    def correspondence(self, ctx, corr):
        corr.rule = self.rule
        cases = list(self.corpus()) + self.reserved_cases()
        ncorp = len(cases)
        rng = C.rng_for(ctx.seed, self.id, "gen")
        cases += [self.gen(rng, i) for i in range(self.n_cases[ctx.tier])]
        impl, model = self.evaluate(cases, corr)
        corr.extra["corpus_cases"] = ncorp
        for j in [0, len(cases) // 3, 2 * len(cases) // 3, len(cases) - 1]:
            corr.samples.append({"input": cases[j], "impl": impl[j][0], "model": None if model is None else model[j]})
        corr.failures = self._split_known(ctx, corr.failures, corr)
        corr.failures = [self.shrink(f, "oracle") for f in corr.failures[:3]] + corr.failures[3:]
        corr.disagreements.sort(key=lambda d: len(repr(d["input"])))

    def search(self, ctx, corr, broken):
        cands = [d["input"] for d in corr.disagreements[:200]]
        extra = []
        for c in cands:
            extra += list(self.shrink_candidates(c))[:20]
        rng = C.rng_for(ctx.seed, self.id, "search")
        more = [self.gen(rng, i) for i in range(self.search_cases[ctx.tier])]
        c2 = C.Corr()
        self.evaluate(cands + extra + more, c2, with_model=False)
        corr.extra["search_cases"] = c2.evaluations
        fails = self._split_known(ctx, c2.failures, corr)
        return self.shrink(fails[0], "oracle") if fails else None

    def shrink(self, f, kind):
        d12 = str(f["what"]).startswith("[D12]")
        cur = f
        for _ in range(100):
            for cand in self.shrink_candidates(cur["input"]):
                try:
                    out = self.impl(cand)
                    bad = self.oracle(cand, out)
                except Exception:  # noqa: BLE001
                    continue
                if bad and str(bad).startswith("[D12]") == d12:
                    cur = {"input": cand, "impl": out, "what": bad}
                    break
            else:
                break
        return cur

    # -- evidence -------------------------------------------------------------------------
    def nontrivial(self, case, out):
        if "hist" in case:
            return any(op[0] == "P" for op in case["hist"]) and not any(l.startswith("ERR") for l in out)
        return case["trips"] >= 1 and not any(l.startswith("ERR") for l in out)

    def classify(self, case, out):
        o = case["obj"]
        if "hist" in case:
            h = case["hist"]
            ks = ["kind=" + o["k"], "hist", "hist:layers=" + "".join(f"{a}{b}" for a, b in case["layers"])]
            if o["k"] not in FUNC_KINDS:
                ks.append("hist:callvia=" + o["callvia"])
            nlive = sum(1 for op in h if op == ["P", "live"])
            ks.append(f"hist:picklings-of-live={nlive}")
            seenp = seenm = pmp = False
            for op in h:
                if op == ["P", "live"]:
                    pmp = pmp or (seenp and seenm)
                    seenp = True
                elif op[0] == "M" and seenp:
                    seenm = True
                m = op[1] if op[0] == "M" else op[2] if op[0] == "C" else None
                if m:
                    ks.append(f"hist:{'copy-' if op[0] == 'C' else ''}mut={m['op']}/{m['via']}")
            if pmp:
                ks.append("hist:pickle-change-pickle")
            if any(op[0] == "P" and op[1] != "live" for op in h):
                ks.append("hist:copy-pickled-again")
            if any(op[0] == "O" and op[1] != "live" for op in h):
                ks.append("hist:earlier-copy-looked-at-again")
            return sorted(set(ks))
        ks = ["kind=" + o["k"], f"trips={case['trips']}", "layers=" + "".join(f"{a}{b}" for a, b in case["layers"])]
        if o["k"] not in FUNC_KINDS:
            ks.append("callvia=" + o["callvia"])
        if self.reserved_attr(case):
            ks.append("reserved_attr")
        if len(out) > 2 and out[-1].startswith("layers=-"):
            ks.append("arrived-unwrapped")
        elif len(out) > 2:
            ks.append("arrived-wrapped")
        return ks

    def shrink_candidates(self, case):
        if "hist" in case:
            h = case["hist"]
            for i in range(len(h) - 1, -1, -1):
                c = drop_op(h, i)
                if c is not None and hist_ok(c):
                    yield dict(case, hist=c)
            if len(case["layers"]) > 1:
                yield dict(case, layers=case["layers"][:1])
            for i in range(len(case["reads"])):
                yield dict(case, reads=case["reads"][:i] + case["reads"][i + 1:])
            return
        if case["trips"] > 0:
            yield dict(case, trips=case["trips"] - 1)
        if len(case["layers"]) > 1:
            yield dict(case, layers=case["layers"][:1])
        for i in range(len(case["reads"])):
            yield dict(case, reads=case["reads"][:i] + case["reads"][i + 1:])
        o = case["obj"]
        for n in list(o.get("attrs", {})):
            if n not in case["reads"]:
                yield dict(case, obj=dict(o, attrs={k: v for k, v in o["attrs"].items() if k != n}))
        if o["k"] in FUNC_KINDS and o["k"] != "closure":
            yield dict(case, obj=dict(o, k="closure"))
        if o.get("a") != 1 or o.get("b") != 0:
            yield dict(case, obj=dict(o, a=1, b=0))


PROP = Prop()
