"""C16 — wrap_non_picklable_objects is behaviour-preserving (E2, model M6 `Wrapper`).

A case describes an object (function / instance / class + constructor arguments), a stack of
wrappers (`wrap_non_picklable_objects(x, keep_wrapper)`, innermost first), a number of round trips
and the attribute names to read.  Line 0 of the output observes the *original* bare object, line
1+k what exists after k round trips of the wrapped object (plain `pickle` while it is a wrapper,
cloudpickle once it arrived unwrapped).  The Lean driver predicts every line from line 0's
observations; the oracle compares lines 1.. with line 0 as the property statement demands.
"""
import hashlib
import pickle
import types

from .. import common as C
from ..e2 import E2Prop

# sample calls: positional, defaulted positional, keyword-only (a wrapper dropping **kwargs or *args shows)
SAMPLES = [((2,), {}), ((3, 4), {}), ((5,), {"z": 7}), ((1, 2), {"z": 3}), ((0,), {"y": 6, "z": 1})]
# pool of ordinary attribute names; index = the model's `Name.user i`
POOL = ["p", "q", "r", "m", "tag", "meta", "n", "nope", "extra", "obj", "keep_wrapper", "_obj_", "x_obj"]
RESERVED = ("_obj", "_keep_wrapper")
FUNC_KINDS = ("lambda", "closure", "nested", "recursive", "dynmain", "dynmod")
_dyn_counter = [0]


def _tok(x):
    return int(hashlib.sha1(repr(x).encode()).hexdigest()[:10], 16)


# ------------------------------------------------------------------ object factory (JSON spec -> object)

def build_func(spec):
    k, a, b = spec["k"], spec["a"], spec["b"]
    if k == "lambda":
        f = lambda x, y=0, *, z=0, _a=a, _b=b: _a * x + _b + 10 * y + 100 * z  # noqa: E731
    elif k == "closure":
        def make(a, b):
            def f(x, y=0, *, z=0):
                return a * x + b + 10 * y + 100 * z
            return f
        f = make(a, b)
    elif k == "nested":
        def l1(a):
            def l2(b):
                c = a + b

                def l3():
                    def f(x, y=0, *, z=0):
                        return a * x + b + c + 10 * y + 100 * z
                    return f
                return l3()
            return l2
        f = l1(a)(b)
    elif k == "recursive":
        def make(a, b):
            def f(x, y=0, *, z=0):
                if x <= 0:
                    return b + 10 * y + 100 * z
                return a + f(x - 1, y, z=z)
            return f
        f = make(a, b)
    elif k in ("dynmain", "dynmod"):
        _dyn_counter[0] += 1
        name = "__main__" if k == "dynmain" else f"_verif_dyn_{_dyn_counter[0]}"
        mod = types.ModuleType(name)
        src = (f"K = {a}\n"
               "def helper(v):\n    return v * K\n"
               f"def verif_dyn_f(x, y=0, *, z=0):\n    return helper(x) + {b} + 10 * y + 100 * z\n")
        exec(compile(src, f"<{name}>", "exec"), mod.__dict__)
        f = mod.verif_dyn_f
    else:
        raise ValueError(k)
    for n, v in spec.get("attrs", {}).items():
        setattr(f, n, v)
    return f


def build_class(spec):
    a, b, callvia, extras = spec["a"], spec["b"], spec["callvia"], spec.get("attrs", {})

    class Base:
        def __init__(self, p, q=2, *, r=3):
            self.p, self.q, self.r = p, q, r
            for k, v in extras.items():
                setattr(self, k, v)

        def m(self, x):
            return self.p * x + self.q + a

        def bump(self):
            """what a task does to an object it received: change it, then send it back"""
            self.p = self.p + 1
            return self.p

        def __getstate__(self):
            return dict(self.__dict__)

        def __setstate__(self, st):
            self.__dict__.update(st)
            self.__dict__["_gen"] = st.get("_gen", 0) + 1

    def call(self, x, y=0, *, z=0):
        return self.p * x + self.r + b + 10 * y + 100 * z

    if callvia == "base":
        class Mid(Base):
            __call__ = call

        class Thing(Mid):
            pass
    elif callvia == "own":
        class Thing(Base):
            __call__ = call
    elif callvia == "objcall":
        # `__call__` is a callable object, not a plain function (no `self` binding: it is not a descriptor)
        class Helper:
            def __init__(self, k):
                self.k = k

            def __call__(self, x, y=0, *, z=0):
                return 7 * x + self.k + 10 * y + 100 * z

        class Thing(Base):
            __call__ = Helper(b)
    else:
        class Thing(Base):
            pass
    return Thing


def ctor_args(spec):
    c = spec.get("ctor", {"args": [1], "kw": {}})
    return list(c["args"]), dict(c["kw"])


def build_original(case):
    """the bare object the property compares against"""
    spec = case["obj"]
    if spec["k"] in FUNC_KINDS:
        return build_func(spec)
    cls = build_class(spec)
    args, kw = ctor_args(spec)
    return cls(*args, **kw)


def original_at(case, k):
    """the bare object after the mutations applied before round trips 0..k-1"""
    o = build_original(case)
    for j in case.get("bump", []):
        if j < k:
            o.bump()
    return o


def build_wrapped(case):
    from loky import wrap_non_picklable_objects as W
    spec = case["obj"]
    layers = case["layers"]
    if spec["k"] == "class":
        cls = build_class(spec)
        args, kw = ctor_args(spec)
        assert layers and layers[0][0] == "k"
        v = W(cls, keep_wrapper=bool(layers[0][1]))(*args, **kw)
        rest = layers[1:]
    else:
        v = build_original(case)
        rest = layers
    for kind, keep in rest:
        assert kind == "n"
        v = W(v, keep_wrapper=bool(keep))
    return v


# ------------------------------------------------------------------ observation

def _wrapper_types():
    import loky.cloudpickle_wrapper as m
    return m.CloudpickledObjectWrapper, m.CallableObjectWrapper


def observe(x, case):
    base_t, call_t = _wrapper_types()
    layers, cur = [], x
    while isinstance(cur, base_t):
        t = type(cur)
        if t is call_t:
            kind = "callable"
        elif t is base_t:
            kind = "object"
        else:
            kind = "classInstC" if isinstance(cur, call_t) else "classInst"
        layers.append(f"{kind}:{1 if cur.__dict__.get('_keep_wrapper') else 0}")
        cur = cur.__dict__.get("_obj")
    core = cur
    res = []
    for args, kw in SAMPLES:
        try:
            res.append(x(*args, **kw))
        except TypeError as e:
            res.append("TypeError" if "not callable" in str(e) else "TypeError:" + str(e)[:60])
        except Exception as e:  # noqa: BLE001
            res.append(type(e).__name__)
    call = "TypeError" if all(r == "TypeError" for r in res) else str(_tok(res))
    if case["obj"]["k"] in FUNC_KINDS:
        gen = "-"
    else:
        gen = str(getattr(core, "__dict__", {}).get("_gen", 0))
    reads = []
    for name in case["reads"]:
        try:
            v = getattr(x, name)
        except AttributeError:
            reads.append("AE")
            continue
        except RecursionError:
            reads.append("RecursionError")
            continue
        if isinstance(x, base_t) and name == "_obj" and v is x.__dict__.get("_obj"):
            reads.append("inner")
        elif isinstance(x, base_t) and name == "_keep_wrapper" and type(v) is bool:
            reads.append(f"flag{int(v)}")
        elif callable(v):
            try:
                reads.append("v%d" % _tok(("call", v(3))))
            except Exception as e:  # noqa: BLE001
                reads.append("v%d" % _tok(("exc", type(e).__name__)))
        else:
            reads.append("v%d" % _tok(v))
    return (f"layers={'/'.join(layers) or '-'} callable={int(callable(x))} call={call} gen={gen} "
            f"reads={','.join(reads) or '-'}")


def parse(line):
    return dict(kv.split("=", 1) for kv in line.split(" "))


def name_token(n):
    return n if n in RESERVED else f"u:{POOL.index(n)}"


# ------------------------------------------------------------------ the property

class Prop(E2Prop):
    id = "C16"
    lean_modules = ["LokyModel.Props.C16"]
    driver = "wrapper_driver"
    n_cases = {"quick": 20000, "thorough": 200000}
    search_cases = {"quick": 10000, "thorough": 100000}
    rule = ("case = (object, wrapper stack, round trips, attribute reads): functions (lambda, closure, 3-level nested, "
            "recursive, defined in a dynamic `__main__` / unimportable module) with attributes; callable (own or inherited "
            "__call__) and non-callable instances of local classes; wrapped classes with positional/keyword constructor "
            "arguments; 1-2 wrapper layers with both keep_wrapper values; 1-3 round trips. Non-trivial = plain pickle of "
            "the bare object fails (always, by construction) and the case has >= 1 round trip; distinct by full input.")
    assumptions = [
        "cloudpickle's round trip of a bare object preserves its behaviour (hypothesis `Faithful rt`); the harness's objects are cloudpickle-serialisable",
        "attribute reads = the object's own data/method attributes; names every Python object answers itself (__class__, __dict__, __doc__, __module__, ...) are outside the property (theorem hypothesis `typeLevel a = false`) and are not generated",
        "instances of a class are callable iff a class of its MRO defines __call__ (hypothesis `hdc` of class_wrapper_instances)",
        "once an object has arrived unwrapped (keep_wrapper=False) further round trips are made with cloudpickle, as in the model's `trip`",
        "calls are compared on 5 sample argument lists (positional, defaulted, keyword-only); the model treats the call behaviour as one opaque token",
    ]

    # -- cases ---------------------------------------------------------------------------
    def corpus(self):
        cs = []

        def add(obj, layers, trips=2, reads=("p", "q", "r", "m", "tag", "nope")):
            cs.append({"obj": obj, "layers": [list(l) for l in layers], "trips": trips, "reads": list(reads)})
        for k in FUNC_KINDS:
            for keep in (0, 1):
                add({"k": k, "a": 3, "b": 1, "attrs": {"tag": 7}}, [("n", keep)], 3, ("tag", "nope"))
        for callvia in ("none", "own", "base"):
            for keep in (0, 1):
                inst = {"k": "inst", "callvia": callvia, "a": 2, "b": 5, "attrs": {"tag": 4},
                        "ctor": {"args": [6], "kw": {"q": 9, "r": 8}}}
                add(inst, [("n", keep)], 3)
                # regression for the repaired defect: instance made through a wrapped callable class, before any round trip
                add(dict(inst, k="class"), [("k", keep)], 0)
                add(dict(inst, k="class"), [("k", keep)], 3)
                add(dict(inst, k="class", ctor={"args": [6, 4], "kw": {}}), [("k", keep)], 1)
                add(dict(inst, k="class", ctor={"args": [], "kw": {"p": 5, "r": 2}}), [("k", keep)], 1)
        for k0 in (0, 1):
            for k1 in (0, 1):
                add({"k": "closure", "a": 2, "b": 2, "attrs": {}}, [("n", k0), ("n", k1)], 3, ("tag",))
                add({"k": "class", "callvia": "own", "a": 1, "b": 1, "attrs": {}, "ctor": {"args": [2], "kw": {}}},
                    [("k", k0), ("n", k1)], 3)
                add({"k": "inst", "callvia": "none", "a": 1, "b": 1, "attrs": {}, "ctor": {"args": [2], "kw": {}}},
                    [("n", k0), ("n", k1)], 2)
        for keep in (0, 1):
            oc = {"k": "inst", "callvia": "objcall", "a": 2, "b": 5, "attrs": {"tag": 4}, "ctor": {"args": [6], "kw": {"q": 9, "r": 8}}}
            add(oc, [("n", keep)], 2)
            add(dict(oc, k="class"), [("k", keep)], 2)
            # the object is changed between two round trips (a task increments a counter and sends the object back)
            cs.append({"obj": dict(oc, callvia="own"), "layers": [["n", keep]], "trips": 3, "reads": ["p", "m", "tag"], "bump": [1, 2]})
            cs.append({"obj": dict(oc, callvia="none", k="class"), "layers": [["k", keep]], "trips": 2, "reads": ["p", "q"], "bump": [0, 1]})
        # 0 round trips (pure forwarding), no reads
        add({"k": "lambda", "a": 1, "b": 0, "attrs": {}}, [("n", 1)], 0, ())
        return cs

    def reserved_cases(self):
        """D12: the object has an attribute called `_obj` / `_keep_wrapper`"""
        cs = []
        for name in RESERVED:
            cs.append({"obj": {"k": "inst", "callvia": "none", "a": 1, "b": 1, "attrs": {name: 5},
                               "ctor": {"args": [1], "kw": {}}},
                       "layers": [["n", 1]], "trips": 1, "reads": ["p", name]})
        cs.append({"obj": {"k": "closure", "a": 1, "b": 1, "attrs": {"_obj": 5}},
                   "layers": [["n", 1]], "trips": 0, "reads": ["_obj"]})
        return cs

    def gen(self, rng, i):
        r = rng.random()
        a, b = rng.randint(-3, 9), rng.randint(-5, 20)
        attrs = {n: rng.randint(0, 99) for n in rng.sample(["tag", "meta", "n", "extra", "obj", "keep_wrapper", "_obj_", "x_obj"],
                                                          rng.choice([0, 1, 1, 2, 3]))}
        d12 = rng.random() < 0.03
        if d12:
            attrs[rng.choice(RESERVED)] = rng.randint(2, 99)
        if r < 0.45:
            obj = {"k": rng.choice(FUNC_KINDS), "a": a, "b": b, "attrs": attrs}
        else:
            nargs = rng.choice([0, 1, 1, 2])
            kw = {k: rng.randint(0, 9) for k in rng.sample(["p", "q", "r"][nargs:], rng.randint(0, 3 - nargs))}
            if nargs == 0:
                kw["p"] = rng.randint(0, 9)
            obj = {"k": "inst" if r < 0.7 else "class", "callvia": rng.choice(["none", "own", "base", "objcall"]), "a": a, "b": b,
                   "attrs": attrs, "ctor": {"args": [rng.randint(0, 9) for _ in range(nargs)], "kw": kw}}
        first = "k" if obj["k"] == "class" else "n"
        layers = [[first, rng.randint(0, 1)]]
        if rng.random() < 0.3:
            layers.append(["n", rng.randint(0, 1)])
        trips = rng.choice([0, 1, 1, 2, 2, 3])
        names = [n for n in attrs if n not in RESERVED] + ["nope"]
        if obj["k"] not in FUNC_KINDS:
            names += ["p", "q", "r", "m"]
        reads = rng.sample(names, rng.randint(1, min(5, len(names))))
        reads += [n for n in attrs if n in RESERVED]
        case = {"obj": obj, "layers": layers, "trips": trips, "reads": reads}
        if obj["k"] not in FUNC_KINDS and trips >= 1 and rng.random() < 0.4:
            case["bump"] = sorted(rng.sample(range(trips), rng.randint(1, trips)))
        return case

    # -- model ---------------------------------------------------------------------------
    def model_lines(self, case):
        def head_of(k):
            first = parse(observe(original_at(case, k), case))
            vals = first["reads"].split(",") if first["reads"] != "-" else []
            attrs = [f"{name_token(n)}={v[1:]}" for n, v in zip(case["reads"], vals) if v.startswith("v")]
            calltok = "0" if first["call"] == "TypeError" else first["call"]
            track = "0" if first["gen"] == "-" else "1"
            return f"{first['callable']} {calltok} {track} {'/'.join(attrs) or '-'}"
        reads = ",".join(name_token(n) for n in case["reads"]) or "-"
        layers = []
        for kind, keep in case["layers"]:
            if kind == "n":
                layers.append(f"n{keep}")
            else:
                layers.append(f"k{keep}{0 if case['obj']['callvia'] == 'none' else 1}")
        lines = [f"stage 0 {head_of(0)} - {reads}"]
        for k in range(case["trips"] + 1):
            lines.append(f"stage {k} {head_of(k)} {','.join(layers)} {reads}")
        return lines

    # -- implementation ------------------------------------------------------------------
    def impl(self, case):
        import cloudpickle
        base_t, _ = _wrapper_types()
        out = [observe(build_original(case), case)]
        try:
            v = build_wrapped(case)
        except Exception as e:  # noqa: BLE001
            return out + [f"ERR:wrap:{type(e).__name__}"]
        out.append(observe(v, case))
        for k in range(case["trips"]):
            try:
                if k in case.get("bump", []):
                    v.bump()                     # the holder changes the object between two trips
                if isinstance(v, base_t):
                    v = pickle.loads(pickle.dumps(v))
                else:
                    v = cloudpickle.loads(cloudpickle.dumps(v))
            except Exception as e:  # noqa: BLE001
                out.append(f"ERR:pickle:{type(e).__name__}")
                break
            out.append(observe(v, case))
        return out

    # -- oracle (from the statement of C16; does not use the model) -------------------------
    def oracle(self, case, out):
        for line in out:
            if line.startswith("ERR") or line.startswith("HARNESS-EXC"):
                return f"the wrapper did not survive construction / a plain-pickle round trip: {line}"
        if len(out) != case["trips"] + 2:
            return "missing stages"
        orig = parse(out[0])
        if orig["layers"] != "-":
            return "harness: original is a wrapper"
        keeps = [int(k) for _, k in case["layers"]]
        d12 = None
        for k, line in enumerate(out[1:]):
            st = parse(line)
            if case.get("bump"):
                orig = parse(observe(original_at(case, k), case))
            ls = [] if st["layers"] == "-" else st["layers"].split("/")
            flags = [int(l.split(":")[1]) for l in ls]
            if k == 0:
                if flags != keeps[::-1]:
                    return f"before any round trip: wrapper layers {flags}, requested {keeps[::-1]}"
            else:
                want = [f for f in keeps[::-1] if f]
                if flags != want:
                    return (f"after {k} round trip(s): arrives with wrapper flags {flags}, keep_wrapper demands {want} "
                            f"(wrapped iff keep_wrapper)")
            if st["callable"] != orig["callable"]:
                return f"after {k} round trip(s): callable()={st['callable']}, the object's is {orig['callable']}"
            if st["call"] != orig["call"]:
                return f"after {k} round trip(s): results of the sample calls differ from the object's"
            r0 = orig["reads"].split(",") if orig["reads"] != "-" else []
            r1 = st["reads"].split(",") if st["reads"] != "-" else []
            for name, x0, x1 in zip(case["reads"], r0, r1):
                if x0 != x1:
                    msg = f"after {k} round trip(s): attribute {name!r} reads {x1}, the object's reads {x0}"
                    if name in RESERVED:
                        d12 = d12 or ("[D12] " + msg)
                    else:
                        return msg
        return d12

    # -- known finding D12 -------------------------------------------------------------------
    @staticmethod
    def reserved_attr(case):
        """delimiting predicate of D12: the wrapped object has an attribute named _obj / _keep_wrapper"""
        return any(n in RESERVED for n in case["obj"].get("attrs", {}))

    def _split_known(self, ctx, failures, corr):
        listed = {f["id"] for f in getattr(ctx, "known", [])}
        keep = []
        for f in failures:
            if "D12" in listed and str(f["what"]).startswith("[D12]") and self.reserved_attr(f["input"]):
                corr.known_hits["D12"] = corr.known_hits.get("D12", 0) + 1
            else:
                keep.append(f)
        return keep

    def correspondence(self, ctx, corr):
        corr.rule = self.rule
        cases = list(self.corpus()) + self.reserved_cases()
        ncorp = len(cases)
        rng = C.rng_for(ctx.seed, self.id, "gen")
        cases += [self.gen(rng, i) for i in range(self.n_cases[ctx.tier])]
        impl, model = self.evaluate(cases, corr)
        corr.extra["corpus_cases"] = ncorp
        for j in [0, len(cases) // 3, 2 * len(cases) // 3, len(cases) - 1]:
            corr.samples.append({"input": cases[j], "impl": impl[j][0], "model": None if model is None else model[j]})
        corr.failures = self._split_known(ctx, corr.failures, corr)
        corr.failures = [self.shrink(f, "oracle") for f in corr.failures[:3]] + corr.failures[3:]
        corr.disagreements.sort(key=lambda d: len(repr(d["input"])))

    def search(self, ctx, corr, broken):
        cands = [d["input"] for d in corr.disagreements[:200]]
        extra = []
        for c in cands:
            extra += list(self.shrink_candidates(c))[:20]
        rng = C.rng_for(ctx.seed, self.id, "search")
        more = [self.gen(rng, i) for i in range(self.search_cases[ctx.tier])]
        c2 = C.Corr()
        self.evaluate(cands + extra + more, c2, with_model=False)
        corr.extra["search_cases"] = c2.evaluations
        fails = self._split_known(ctx, c2.failures, corr)
        return self.shrink(fails[0], "oracle") if fails else None

    def shrink(self, f, kind):
        d12 = str(f["what"]).startswith("[D12]")
        cur = f
        for _ in range(100):
            for cand in self.shrink_candidates(cur["input"]):
                try:
                    out = self.impl(cand)
                    bad = self.oracle(cand, out)
                except Exception:  # noqa: BLE001
                    continue
                if bad and str(bad).startswith("[D12]") == d12:
                    cur = {"input": cand, "impl": out, "what": bad}
                    break
            else:
                break
        return cur

    # -- evidence -------------------------------------------------------------------------
    def nontrivial(self, case, out):
        return case["trips"] >= 1 and not any(l.startswith("ERR") for l in out)

    def classify(self, case, out):
        o = case["obj"]
        ks = ["kind=" + o["k"], f"trips={case['trips']}", "layers=" + "".join(f"{a}{b}" for a, b in case["layers"])]
        if o["k"] not in FUNC_KINDS:
            ks.append("callvia=" + o["callvia"])
        if self.reserved_attr(case):
            ks.append("reserved_attr")
        if len(out) > 2 and out[-1].startswith("layers=-"):
            ks.append("arrived-unwrapped")
        elif len(out) > 2:
            ks.append("arrived-wrapped")
        return ks

    def shrink_candidates(self, case):
        if case["trips"] > 0:
            yield dict(case, trips=case["trips"] - 1)
        if len(case["layers"]) > 1:
            yield dict(case, layers=case["layers"][:1])
        for i in range(len(case["reads"])):
            yield dict(case, reads=case["reads"][:i] + case["reads"][i + 1:])
        o = case["obj"]
        for n in list(o.get("attrs", {})):
            if n not in case["reads"]:
                yield dict(case, obj=dict(o, attrs={k: v for k, v in o["attrs"].items() if k != n}))
        if o["k"] in FUNC_KINDS and o["k"] != "closure":
            yield dict(case, obj=dict(o, k="closure"))
        if o.get("a") != 1 or o.get("b") != 0:
            yield dict(case, obj=dict(o, a=1, b=0))


PROP = Prop()
