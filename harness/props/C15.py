"""C15 — serialisation customisation is scoped and faithful: pickle part (E2, M6) + the reusable executor carries the
reducers of the request it is returned for (E3, real workers, M6) + pickler-at-submit on the real executor (E1 oracle)"""
from ..composite import Composite
from ..e1 import E1Part
from .C15_pickle import PART
from .C15_reuse import PART as REUSE

E1 = E1Part("C15", [("pickler", 1)], ["C15"], [], quick=500, thorough=10000, lockstep_on=False)
PROP = Composite("C15", [PART, REUSE, E1])
