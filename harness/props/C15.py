"""C15 — serialisation customisation is scoped and faithful: pickle part (E2) [+ executor part, to come]"""
from ..composite import Composite
from .C15_pickle import PART

PROP = Composite("C15", [PART])
