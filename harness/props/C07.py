"""C07 — idle-time-out exits are invisible: Lean theorems over M1 + E1 (plain executor in lock-step with M1; reusable
executor with resizes racing with time-outs)."""
from ..composite import Composite
from ..e1 import E1Part, ReusePart

E1 = E1Part("C07", [("timeouts", 3), ("leak", 1), ("graceful", 1), ("respawn", 2), ("saturatetmo", 2)], ["C07", "C03", "C01", "C08"],
            ["LokyModel.Props.C07", "LokyModel.Props.C07Live", "LokyModel.Props.C07LiveCrash"], quick=1200, thorough=40000, starve=2)
REUSE = ReusePart("C07", ["C07", "C03", "C01", "C10"], [], quick=500, thorough=15000, families=[("reuse", 1)])
PROP = Composite("C07", [E1, REUSE])
