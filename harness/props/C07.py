"""C07 — executor-protocol property: Lean theorems over M1 + E1 (real code under the deterministic scheduler,
in lock-step with M1, judged by the oracles of harness/simengine/monitors.py)."""
from ..e1 import E1Part

PROP = E1Part("C07", [("timeouts",3),("leak",1),("graceful",1),("respawn",2)], ["C07","C03","C01"], ["LokyModel.Props.C07"], quick=1400, thorough=40000, starve=0)
