"""C12 — one resource tracker serves the whole process tree and is self-healing (E3, model M4).

Abstract histories over a tree of real `LokyProcess` / `LokyInitMainProcess` members (root = a fresh
Python process): spawn at any depth, tracked operations on files, signals to any tracker incarnation at
any time (right after its launch included), deaths of the members in any order by normal return,
uncaught exception, KeyboardInterrupt (SIGINT), os._exit, SIGTERM, SIGKILL.  The same history is fed to
the Lean driver; the oracle below is written from the statement of C12 and does not use the model.
"""
from ..realproc.tt_engine import E3TreeProp, RELAUNCH

KILLISH = ("kill", "term", "osexit")
SOFT = ("normal", "exc", "int")


class Sim:
    """bookkeeping the generator needs to emit well-formed histories (who is alive, who has live children,
    which tracker incarnation a member would use) -- not an oracle"""

    def __init__(self):
        self.alive = {0}
        self.parent = {0: None}
        self.depth = {0: 0}
        self.trk = {0: None}
        self.tracker_alive = []
        self.files = []
        self.next_member = 1
        self.next_file = 1

    def ensure(self, p):
        t = self.trk[p]
        if t is None or not self.tracker_alive[t]:
            self.tracker_alive.append(True)
            self.trk[p] = len(self.tracker_alive) - 1
        return self.trk[p]

    def live_children(self, p):
        return [c for c in self.alive if self.parent[c] == p]

    def die(self, p):
        self.alive.discard(p)
        for t in range(len(self.tracker_alive)):
            if self.tracker_alive[t] and not any(self.trk[m] == t for m in self.alive):
                self.tracker_alive[t] = False


class Prop(E3TreeProp):
    id = "C12"
    lean_modules = ["LokyModel.Props.C12"]
    budget = {"quick": 170, "thorough": 1700}
    n_cases = {"quick": 19, "thorough": 560}
    search_cases = {"quick": 10, "thorough": 40}
    rule = ("real process trees: root + LokyProcess/LokyInitMainProcess members, depth <= 2 (quick) / 3 (thorough), "
            "<= 6 members; per tree 6-16 steps of spawn / tracked op on files / info / INT-TERM-KILL to any tracker "
            "incarnation (also right after its launch) / death of a member (normal, exception, KeyboardInterrupt, "
            "os._exit, SIGTERM, SIGKILL) and then the death of every remaining member in random order. Compared with "
            "the Lean driver after every step: tracker incarnation of the acting member and of a new child, relaunch "
            "warning, live trackers, real writer set of every tracker pipe (/proc/<pid>/fd), tracked files, named "
            "semaphores, leak reports. Non-trivial = at least one spawn and one death before the end; distinct by history.")
    assumptions = [
        "a pipe reaches EOF exactly when its last write end is closed; a process that dies (SIGKILL included) closes its descriptors",
        "os.write on the tracker pipe fails with EPIPE iff the tracker process is gone",
        "signal mask and dispositions set before exec are inherited by the tracker; pass_fds/close_fds keep other write ends out of it",
        "tracker requests are <= 512 bytes (atomic pipe writes); file names used by the scenarios are short",
        "no SIGKILL races inside ensure_running/_send (tracker killed between the probe and the write): operations are atomic in the model",
    ]
    max_depth = {"quick": 2, "thorough": 3}
    _tier = "quick"

    # ------------------------------------------------------------------ corpus
    def corpus(self):
        cs = []

        def add(*steps):
            cs.append({"steps": [["start"]] + [list(s) for s in steps] + [["end"]]})
        # depth-2 chain, both start methods, root SIGKILLed first, leaf last (normal)
        add(("mkfile", 0, 1), ("op", 0, "register", 1), ("spawn", 0, 1, "loky", []), ("spawn", 1, 2, "loky_init_main", []),
            ("info", 2), ("sig", 0, "term"), ("sig", 0, "int"), ("exit", 0, "kill"), ("exit", 1, "osexit"),
            ("mkfile", 2, 2), ("op", 2, "register", 2), ("exit", 2, "normal"))
        # signals right after the launch of the tracker, both kinds, then a depth-1 child dying by exception
        add(("mkfile", 0, 1), ("opsig", 0, "register", 1, "term"), ("spawn", 0, 1, "loky_init_main", []),
            ("exit", 1, "exc"), ("exit", 0, "normal"))
        add(("mkfile", 0, 1), ("opsig", 0, "register", 1, "int"), ("sig", 0, "int"), ("sig", 0, "term"), ("exit", 0, "exc"))
        # tracker killed twice; each next operation relaunches; members keep their own incarnations
        add(("mkfile", 0, 1), ("op", 0, "register", 1), ("spawn", 0, 1, "loky", []), ("sig", 0, "kill"),
            ("info", 1), ("op", 1, "register", 1), ("info", 0), ("mkfile", 0, 2), ("op", 0, "register", 2),
            ("sig", 2, "kill"), ("op", 0, "register", 2), ("spawn", 0, 2, "loky", []), ("sig", 1, "term"),
            ("exit", 1, "kill"), ("exit", 2, "int"), ("exit", 0, "normal"))
        # tracker killed right after its launch
        add(("mkfile", 0, 1), ("opsig", 0, "register", 1, "kill"), ("op", 0, "register", 1), ("exit", 0, "term"))
        # refcounted file: two registrations, one maybe_unlink, unregister of another file; leaf outlives everybody
        add(("mkfile", 0, 1), ("op", 0, "register", 1), ("spawn", 0, 1, "loky", []), ("op", 1, "register", 1),
            ("op", 0, "maybe_unlink", 1), ("mkfile", 1, 2), ("op", 1, "register", 2), ("op", 1, "unregister", 2),
            ("spawn", 1, 2, "loky", []), ("exit", 0, "term"), ("exit", 1, "kill"), ("sig", 0, "term"), ("exit", 2, "osexit"))
        if self._tier == "thorough":
            # small trees exhaustively: every death order of 3 members (chain and star), abrupt and soft causes
            import itertools
            for shape in ("chain", "star"):
                parent = {1: 0, 2: 1 if shape == "chain" else 0}
                for order in itertools.permutations([0, 1, 2]):
                    for style in ("kill", "soft"):
                        steps = [("mkfile", 0, 1), ("op", 0, "register", 1), ("spawn", 0, 1, "loky", []),
                                 ("spawn", parent[2], 2, "loky_init_main", []), ("mkfile", 2, 2), ("op", 2, "register", 2)]
                        alive = {0, 1, 2}
                        for m in order:
                            has_kids = any(parent.get(c) == m for c in alive if c != m)
                            how = "kill" if style == "kill" else (("term" if has_kids else ("normal", "exc", "int")[m]))
                            steps.append(("exit", m, how))
                            alive.discard(m)
                            if alive:
                                steps.append(("info", min(alive)))
                        add(*steps)
        return cs

    # ------------------------------------------------------------------ generator
    def gen(self, rng, i):
        sim = Sim()
        steps = [["start"]]
        method = rng.choice(["loky", "loky_init_main", "mixed"])
        maxd = self.max_depth[self._tier]

        def newfile(p):
            f = sim.next_file
            sim.next_file += 1
            sim.files.append(f)
            steps.append(["mkfile", p, f])
            return f
        f = newfile(0)
        if rng.random() < 0.4:
            sg = rng.choice(["int", "term", "term", "kill"] if rng.random() < 0.25 else ["int", "term"])
            steps.append(["opsig", 0, "register", f, sg])
            t = sim.ensure(0)
            if sg == "kill":
                sim.tracker_alive[t] = False
        elif rng.random() < 0.85:
            steps.append(["op", 0, "register", f])
            sim.ensure(0)
        n_actions = rng.randint(5, 13)
        kills_left = rng.choice([0, 0, 0, 1, 1, 2, 3])
        for _ in range(n_actions):
            if not sim.alive:
                break
            r = rng.random()
            p = rng.choice(sorted(sim.alive))
            if r < 0.30 and len(sim.parent) < 6:
                cands = [m for m in sorted(sim.alive) if sim.depth[m] < maxd]
                if not cands:
                    continue
                p = rng.choice(cands)
                c = sim.next_member
                sim.next_member += 1
                m = method if method != "mixed" else rng.choice(["loky", "loky_init_main"])
                steps.append(["spawn", p, c, m, []])
                t = sim.ensure(p)
                sim.alive.add(c)
                sim.parent[c] = p
                sim.depth[c] = sim.depth[p] + 1
                sim.trk[c] = t
            elif r < 0.40:
                steps.append(["info", p])
            elif r < 0.55:
                f = newfile(p)
                steps.append(["op", p, "register", f])
                sim.ensure(p)
            elif r < 0.65 and sim.files:
                steps.append(["op", p, rng.choice(["register", "unregister", "maybe_unlink"]), rng.choice(sim.files)])
                sim.ensure(p)
            elif r < 0.80 and sim.tracker_alive:
                k = rng.randrange(len(sim.tracker_alive))
                steps.append(["sig", k, rng.choice(["int", "term"])])
            elif r < 0.88 and sim.tracker_alive and kills_left > 0:
                kills_left -= 1
                live = [k for k, a in enumerate(sim.tracker_alive) if a]
                k = rng.choice(live) if live and rng.random() < 0.8 else rng.randrange(len(sim.tracker_alive))
                steps.append(["sig", k, "kill"])
                sim.tracker_alive[k] = False
            elif len(sim.alive) > 1:
                self._death(rng, sim, steps, p)
        order = sorted(sim.alive)
        rng.shuffle(order)
        while sim.alive:
            # soft exits only for members without live children (a normal exit joins its children first)
            p = next(m for m in order if m in sim.alive)
            if rng.random() < 0.5:
                leaves = [m for m in order if m in sim.alive and not sim.live_children(m)]
                p = rng.choice(leaves)
            if rng.random() < 0.25 and sim.tracker_alive:
                steps.append(["sig", rng.randrange(len(sim.tracker_alive)), rng.choice(["int", "term"])])
            self._death(rng, sim, steps, p)
        steps.append(["end"])
        return {"steps": steps}

    @staticmethod
    def _death(rng, sim, steps, p):
        if sim.live_children(p):
            how = rng.choice(KILLISH)
        else:
            how = rng.choice(KILLISH + SOFT)
        steps.append(["exit", p, how])
        sim.die(p)

    # ------------------------------------------------------------------ model
    def model_lines_of_step(self, case, st):
        k = st[0]
        if k in ("start", "end"):
            return [k]
        if k == "spawn":
            pairs = ",".join(f"{a}:{b}" for a, b in st[4]) or "-"
            return [f"spawn {st[1]} {st[2]} {st[3]} {pairs}"]
        if k == "new":
            from ..realproc.tt_engine import NSEMS
            return [f"new {st[1]} {st[2]} {NSEMS[st[3]]}"]
        return [" ".join(str(x) for x in st)]

    # ------------------------------------------------------------------ oracle (from the statement)
    def oracle(self, case, out):
        obs = out["obs"]
        steps = case["steps"]
        believed = {}            # member -> tracker incarnation it reported last
        alive_members = set()
        killed = set()           # incarnations that received SIGKILL while alive
        any_kill = False
        registered = {}          # file -> "plain" while only ever registered (no unregister / maybe_unlink)
        first_tracker_seen = False
        for st, o in zip(steps, obs):
            kind = st[0]
            act = o.get("act") or {}
            if o.get("skipped"):
                continue
            if kind == "start":
                alive_members.add(0)
            # ---- operations must not fail, whatever happened to the tracker
            if kind in ("spawn", "op", "opsig", "info", "mkfile") and act.get("ok") is False:
                return f"step {st}: the operation raised {act.get('exc')}: {act.get('msg')}"
            p = st[1] if kind in ("spawn", "op", "opsig", "info") else None
            # ---- self-healing
            if kind in ("spawn", "op", "opsig"):
                warns = [w for w in act.get("warnings", []) if RELAUNCH in w]
                old = believed.get(p)
                new = o.get("trk")
                if old is not None and old in killed:
                    if new == old or new is None:
                        return f"step {st}: tracker incarnation {old} was killed but member {p} still reports it after a tracked operation"
                    if len(warns) != 1:
                        return f"step {st}: relaunch after a tracker death issued {len(warns)} warnings, expected exactly one"
                else:
                    if warns:
                        return f"step {st}: 'relaunching' warning although the tracker of member {p} was not killed"
                    if old is not None and new != old:
                        return f"step {st}: member {p} switched from tracker {old} to {new} although {old} was not killed"
                if new is not None and (kind != "opsig" or st[4] != "kill") and new not in o["alive"]:
                    return f"step {st}: member {p} reports tracker {new} which is not alive after the operation"
                believed[p] = new
                first_tracker_seen = first_tracker_seen or new is not None
            if kind == "info":
                if believed.get(p) is not None and o.get("trk") != believed[p]:
                    return f"step {st}: member {p} changed its tracker without a tracked operation"
            # ---- one tracker for the tree: the child gets its parent's tracker
            if kind == "spawn":
                c = st[2]
                if o.get("child_died_at_startup"):
                    return f"step {st}: child {c} ended before it could run (start-up failed)"
                alive_members.add(c)
                if o.get("child_trk") != o.get("trk"):
                    return (f"step {st}: child {c} reports tracker incarnation {o.get('child_trk')}, its parent "
                            f"{p} reports {o.get('trk')}")
                if not o.get("child_fd_same"):
                    return f"step {st}: child {c} did not receive its parent's tracker fd"
                believed[c] = o.get("child_trk")
                if not any_kill and o.get("child_trk") != 0:
                    return f"step {st}: no tracker was killed, yet child {c} does not use the root's tracker"
            if not any_kill:
                bad = {m: t for m, t in believed.items() if t not in (None, 0)}
                if bad:
                    return f"step {st}: no tracker was killed, yet members report other incarnations than the root's: {bad}"
            # ---- signals
            if kind in ("sig", "opsig"):
                sg = st[2] if kind == "sig" else st[4]
                k = st[1] if kind == "sig" else o.get("trk")
                if sg == "kill":
                    if kind == "opsig" or o.get("was_alive"):
                        killed.add(k)
                        any_kill = True
                else:
                    was = o.get("was_alive", True) if kind == "sig" else True
                    if was and k is not None and not o.get("no_such_tracker") and k not in o["alive"]:
                        # it may legitimately have finished only if nobody holds its pipe -- then it was not alive before
                        return f"step {st}: tracker incarnation {k} did not survive SIG{sg.upper()}"
            # ---- file life
            if kind in ("op", "opsig"):
                f = st[3]
                if st[2] == "register":
                    registered.setdefault(f, "plain")
                else:
                    registered[f] = "touched"
            if kind == "exit":
                alive_members.discard(st[1])
            # ---- cleanup only after the last member is gone (single-tracker regime)
            if not any_kill and first_tracker_seen:
                if alive_members:
                    if 0 not in o["alive"]:
                        return f"step {st}: members {sorted(alive_members)} are alive but the tracker is gone"
                    for f, state in registered.items():
                        if state == "plain" and f not in o["files"]:
                            return (f"step {st}: tracked file {f} was removed while members {sorted(alive_members)} "
                                    f"of the tree are still alive")
                elif kind in ("exit", "end"):
                    if o["alive"]:
                        return f"step {st}: every member is gone but tracker(s) {o['alive']} did not finish"
                    for f, state in registered.items():
                        if state == "plain" and f in o["files"]:
                            return f"step {st}: every member is gone and the tracker finished, but tracked file {f} is still there"
        return None

    def nontrivial(self, case, out):
        ks = [s[0] for s in case["steps"]]
        return "spawn" in ks and ks.count("exit") >= 2

    def classify(self, case, out):
        ks = []
        depth = {0: 0}
        for s in case["steps"]:
            if s[0] == "spawn":
                depth[s[2]] = depth[s[1]] + 1
                ks.append("method=" + s[3])
            elif s[0] == "exit":
                ks.append("death=" + s[2])
            elif s[0] == "sig":
                ks.append("sig=" + s[2])
            elif s[0] == "opsig":
                ks.append("startup-sig=" + s[4])
        ks.append(f"depth={max(depth.values())}")
        ks.append(f"members={len(depth)}")
        if case["steps"][2:] and any(s[0] == "exit" and s[1] == 0 for s in case["steps"][:-2]):
            pass
        first_exit = next((s for s in case["steps"] if s[0] == "exit"), None)
        if first_exit is not None and first_exit[1] == 0 and len(depth) > 1:
            ks.append("root-dies-first")
        return ks

    def shrink_candidates(self, case):
        steps = case["steps"]
        for i, s in enumerate(steps):
            if s[0] in ("info", "sig") or (s[0] == "op" and s[2] != "register"):
                yield {"steps": steps[:i] + steps[i + 1:]}

    def correspondence(self, ctx, corr):
        self._tier = ctx.tier
        super().correspondence(ctx, corr)
        corr.extra["exhaustive_small_trees"] = 24 if ctx.tier == "thorough" else 0

    def search(self, ctx, corr, broken):
        self._tier = ctx.tier
        return super().search(ctx, corr, broken)


PROP = Prop()
