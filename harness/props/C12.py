"""C12 — one resource tracker serves the whole process tree and is self-healing (E3, model M4).

Abstract histories over a tree of real `LokyProcess` / `LokyInitMainProcess` members (root = a fresh
Python process): spawn at any depth, tracked operations on files, signals to any tracker incarnation at
any time (right after its launch included), deaths of the members in any order by normal return,
uncaught exception, KeyboardInterrupt (SIGINT), os._exit, SIGTERM, SIGKILL.  Tracked operations are done by
the main thread of a member, by another thread (so that the tracker is launched / relaunched from a non-main
thread), or by several threads at once (first use, or first use after the tracker was killed); a
`loky_init_main` child may use the tracker while its main module is re-imported, i.e. before its
target runs.  The same history is fed to the Lean driver; the oracle below is written from the statement
of C12 and does not use the model.
"""
from ..realproc.tt_engine import E3TreeProp, RELAUNCH, NSEMS

TRACKED = ("spawn", "op", "opsig", "pop", "pnew")      # steps in which the acting member uses the tracker

KILLISH = ("kill", "term", "osexit")
SOFT = ("normal", "exc", "int")


class Sim:
    """bookkeeping the generator needs to emit well-formed histories (who is alive, who has live children,
    which tracker incarnation a member would use) -- not an oracle"""

    def __init__(self):
        self.alive = {0}
        self.parent = {0: None}
        self.depth = {0: 0}
        self.trk = {0: None}
        self.tracker_alive = []
        self.files = []
        self.next_member = 1
        self.next_file = 1
        self.next_obj = 1
        self.initmain = {0: True}     # the member's main module is the scenario's main script (tt_root)
        self.must_crash = set()       # members owning a Lock created at import time: it has lost its finalizer
        #                               (reported finding of C13), a soft exit would not unlink it

    def ensure(self, p):
        t = self.trk[p]
        if t is None or not self.tracker_alive[t]:
            self.tracker_alive.append(True)
            self.trk[p] = len(self.tracker_alive) - 1
        return self.trk[p]

    def live_children(self, p):
        return [c for c in self.alive if self.parent[c] == p]

    def die(self, p):
        self.alive.discard(p)
        for t in range(len(self.tracker_alive)):
            if self.tracker_alive[t] and not any(self.trk[m] == t for m in self.alive):
                self.tracker_alive[t] = False


class Prop(E3TreeProp):
    id = "C12"
    lean_modules = ["LokyModel.Props.C12"]
    budget = {"quick": 170, "thorough": 1700}
    n_cases = {"quick": 50, "thorough": 560}
    search_cases = {"quick": 10, "thorough": 40}
    rule = ("real process trees: root + LokyProcess/LokyInitMainProcess members, depth <= 2 (quick) / 3 (thorough), "
            "<= 6 members; per tree 6-16 steps of spawn / tracked op on files / info / INT-TERM-KILL to any tracker "
            "incarnation (also right after its launch) / death of a member (normal, exception, KeyboardInterrupt, "
            "os._exit, SIGTERM, SIGKILL) and then the death of every remaining member in random order; tracked "
            "operations by the main thread, by another thread (launch / relaunch of the tracker from a non-main thread, "
            "also with INT/TERM right after it), by 2-4 threads at once (first use, first use after a SIGKILL of the "
            "tracker; with and without a delay in spawnv_passfds/_check_alive that widens the window), on files and "
            "by creating loky Locks; loky_init_main children whose re-imported main module registers a file or "
            "creates a Lock at import time. The thread of an operation and the delays are configurations of the "
            "scenario: the model's step function has no thread argument, its prediction is the same. Compared with "
            "the Lean driver after every step: tracker incarnation of the acting member and of a new child, relaunch "
            "warning, live trackers, real writer set of every tracker pipe (/proc/<pid>/fd), tracked files, named "
            "semaphores, leak reports. Non-trivial = at least one spawn and one death before the end; distinct by history.")
    assumptions = [
        "a pipe reaches EOF exactly when its last write end is closed; a process that dies (SIGKILL included) closes its descriptors",
        "os.write on the tracker pipe fails with EPIPE iff the tracker process is gone",
        "signal mask and dispositions set before exec are inherited by the tracker; pass_fds/close_fds keep other write ends out of it",
        "tracker requests are <= 512 bytes (atomic pipe writes); file names used by the scenarios are short",
        "no SIGKILL races inside ensure_running/_send (tracker killed between the probe and the write): operations are atomic in the model",
        "threading.RLock is a lock: ensure_running of the threads of one process are serialised, a concurrent group of "
        "operations is an interleaving of atomic operations (theorem one_launch_per_death holds for every interleaving)",
    ]
    max_depth = {"quick": 2, "thorough": 3}
    _tier = "quick"

    # ------------------------------------------------------------------ corpus
    def corpus(self):
        cs = []

        def add(*steps):
            cs.append({"steps": [["start"]] + [list(s) for s in steps] + [["end"]]})
        # depth-2 chain, both start methods, root SIGKILLed first, leaf last (normal)
        add(("mkfile", 0, 1), ("op", 0, "register", 1), ("spawn", 0, 1, "loky", []), ("spawn", 1, 2, "loky_init_main", []),
            ("info", 2), ("sig", 0, "term"), ("sig", 0, "int"), ("exit", 0, "kill"), ("exit", 1, "osexit"),
            ("mkfile", 2, 2), ("op", 2, "register", 2), ("exit", 2, "normal"))
        # signals right after the launch of the tracker, both kinds, then a depth-1 child dying by exception
        add(("mkfile", 0, 1), ("opsig", 0, "register", 1, "term"), ("spawn", 0, 1, "loky_init_main", []),
            ("exit", 1, "exc"), ("exit", 0, "normal"))
        add(("mkfile", 0, 1), ("opsig", 0, "register", 1, "int"), ("sig", 0, "int"), ("sig", 0, "term"), ("exit", 0, "exc"))
        # tracker killed twice; each next operation relaunches; members keep their own incarnations
        add(("mkfile", 0, 1), ("op", 0, "register", 1), ("spawn", 0, 1, "loky", []), ("sig", 0, "kill"),
            ("info", 1), ("op", 1, "register", 1), ("info", 0), ("mkfile", 0, 2), ("op", 0, "register", 2),
            ("sig", 2, "kill"), ("op", 0, "register", 2), ("spawn", 0, 2, "loky", []), ("sig", 1, "term"),
            ("exit", 1, "kill"), ("exit", 2, "int"), ("exit", 0, "normal"))
        # tracker killed right after its launch
        add(("mkfile", 0, 1), ("opsig", 0, "register", 1, "kill"), ("op", 0, "register", 1), ("exit", 0, "term"))
        # refcounted file: two registrations, one maybe_unlink, unregister of another file; leaf outlives everybody
        add(("mkfile", 0, 1), ("op", 0, "register", 1), ("spawn", 0, 1, "loky", []), ("op", 1, "register", 1),
            ("op", 0, "maybe_unlink", 1), ("mkfile", 1, 2), ("op", 1, "register", 2), ("op", 1, "unregister", 2),
            ("spawn", 1, 2, "loky", []), ("exit", 0, "term"), ("exit", 1, "kill"), ("sig", 0, "term"), ("exit", 2, "osexit"))
        # ---- the re-imported main module of a loky_init_main child uses the tracker at import time
        add(("mkfile", 0, 1), ("op", 0, "register", 1), ("spawn", 0, 1, "loky_init_main", [], ["file", 1]),
            ("info", 1), ("exit", 1, "kill"), ("info", 0), ("exit", 0, "normal"))
        # ... the tracker of the tree is launched by that very spawn; the import creates a Lock; depth 2
        add(("mkfile", 0, 1), ("spawn", 0, 1, "loky_init_main", [], ["lock", 5]),
            ("spawn", 1, 2, "loky_init_main", [], ["file", 1]), ("exit", 1, "kill"), ("info", 2), ("exit", 0, "term"),
            ("exit", 2, "osexit"))
        # ---- tracker launched from a non-main thread, INT / TERM right after the launch; relaunch from a thread
        add(("mkfile", 0, 1), ("opsig", 0, "register", 1, "term", "thread"), ("spawn", 0, 1, "loky", []),
            ("sig", 0, "kill"), ("opsig", 1, "register", 1, "int", "thread"), ("op", 0, "register", 1, "thread"),
            ("sig", 2, "term"), ("exit", 1, "normal"), ("exit", 0, "normal"))
        add(("mkfile", 0, 1), ("opsig", 0, "register", 1, "int", "thread"), ("sig", 0, "kill"),
            ("opsig", 0, "register", 1, "term", "pool"), ("sig", 1, "int"), ("sig", 1, "kill"),
            ("op", 0, "register", 1, "pool"), ("exit", 0, "exc"))
        # ---- several threads at once: first use; first use after a SIGKILL of the tracker (root and child)
        add(("mkfile", 0, 1), ("mkfile", 0, 2), ("mkfile", 0, 3), ("pop", 0, "register", [1, 2, 3], 1), ("info", 0),
            ("spawn", 0, 1, "loky", []), ("sig", 0, "kill"), ("pop", 1, "register", [1, 2], 1),
            ("pop", 0, "register", [1, 2, 3], 1), ("exit", 1, "kill"), ("exit", 0, "normal"))
        add(("pnew", 0, [1, 2, 3, 4], "Lock", 1), ("sig", 0, "kill"), ("pnew", 0, [5, 6, 7], "Lock", 1),
            ("exit", 0, "normal"))
        # ... without the delay (natural race), in a child whose tracker was never used by it
        add(("mkfile", 0, 1), ("mkfile", 0, 2), ("pop", 0, "register", [1, 2, 1, 2], 0),
            ("spawn", 0, 1, "loky_init_main", []), ("pnew", 1, [1, 2, 3], "Lock", 0), ("sig", 0, "kill"),
            ("pop", 1, "register", [1, 2, 1], 0), ("exit", 1, "exc"), ("exit", 0, "normal"))
        if self._tier == "thorough":
            # small trees exhaustively: every death order of 3 members (chain and star), abrupt and soft causes
            import itertools
            for shape in ("chain", "star"):
                parent = {1: 0, 2: 1 if shape == "chain" else 0}
                for order in itertools.permutations([0, 1, 2]):
                    for style in ("kill", "soft"):
                        steps = [("mkfile", 0, 1), ("op", 0, "register", 1), ("spawn", 0, 1, "loky", []),
                                 ("spawn", parent[2], 2, "loky_init_main", []), ("mkfile", 2, 2), ("op", 2, "register", 2)]
                        alive = {0, 1, 2}
                        for m in order:
                            has_kids = any(parent.get(c) == m for c in alive if c != m)
                            how = "kill" if style == "kill" else (("term" if has_kids else ("normal", "exc", "int")[m]))
                            steps.append(("exit", m, how))
                            alive.discard(m)
                            if alive:
                                steps.append(("info", min(alive)))
                        add(*steps)
        return cs

    # ------------------------------------------------------------------ generator
    def gen(self, rng, i):
        sim = Sim()
        steps = [["start"]]
        method = rng.choice(["loky", "loky_init_main", "mixed"])
        maxd = self.max_depth[self._tier]

        def newfile(p):
            f = sim.next_file
            sim.next_file += 1
            sim.files.append(f)
            steps.append(["mkfile", p, f])
            return f
        def thr(st):
            """the operation is done by the main thread or by another thread of the member"""
            r = rng.random()
            return st + ["thread"] if r < 0.3 else st + ["pool"] if r < 0.4 else st

        def group(p):
            """2-4 threads of p use the tracker at the same time"""
            k = rng.randint(2, 4)
            slow = 1 if rng.random() < 0.7 else 0
            if rng.random() < 0.3:
                os_ = list(range(sim.next_obj, sim.next_obj + k))
                sim.next_obj += k
                steps.append(["pnew", p, os_, "Lock", slow])
            else:
                while len(sim.files) < 2:
                    newfile(p)
                fs = [rng.choice(sim.files) for _ in range(k)]
                op = "register" if rng.random() < 0.8 else rng.choice(["unregister", "maybe_unlink"])
                steps.append(["pop", p, op, fs, slow])
            sim.ensure(p)
        f = newfile(0)
        r0 = rng.random()
        if r0 < 0.35:
            sg = rng.choice(["int", "term", "term", "kill"] if rng.random() < 0.25 else ["int", "term"])
            steps.append(thr(["opsig", 0, "register", f, sg]))
            t = sim.ensure(0)
            if sg == "kill":
                sim.tracker_alive[t] = False
        elif r0 < 0.55:
            group(0)
        elif r0 < 0.93:
            steps.append(thr(["op", 0, "register", f]))
            sim.ensure(0)
        n_actions = rng.randint(5, 13)
        kills_left = rng.choice([0, 0, 0, 1, 1, 2, 3])
        for _ in range(n_actions):
            if not sim.alive:
                break
            r = rng.random()
            p = rng.choice(sorted(sim.alive))
            if r < 0.30 and len(sim.parent) < 6:
                cands = [m for m in sorted(sim.alive) if sim.depth[m] < maxd]
                if not cands:
                    continue
                p = rng.choice(cands)
                c = sim.next_member
                sim.next_member += 1
                m = method if method != "mixed" else rng.choice(["loky", "loky_init_main"])
                st = ["spawn", p, c, m, []]
                sim.initmain[c] = sim.initmain[p] and m == "loky_init_main"
                if sim.initmain[c] and rng.random() < 0.5:
                    # the main script uses the tracker at module level: the child does so while re-importing it
                    if sim.files and rng.random() < 0.7:
                        st.append(["file", rng.choice(sim.files)])
                    else:
                        st.append(["lock", sim.next_obj])
                        sim.next_obj += 1
                        sim.must_crash.add(c)
                steps.append(st)
                t = sim.ensure(p)
                sim.alive.add(c)
                sim.parent[c] = p
                sim.depth[c] = sim.depth[p] + 1
                sim.trk[c] = t
            elif r < 0.40:
                steps.append(["info", p])
            elif r < 0.52:
                f = newfile(p)
                steps.append(thr(["op", p, "register", f]))
                sim.ensure(p)
            elif r < 0.60 and sim.files:
                steps.append(thr(["op", p, rng.choice(["register", "unregister", "maybe_unlink"]), rng.choice(sim.files)]))
                sim.ensure(p)
            elif r < 0.67:
                group(p)
            elif r < 0.80 and sim.tracker_alive:
                k = rng.randrange(len(sim.tracker_alive))
                steps.append(["sig", k, rng.choice(["int", "term"])])
            elif r < 0.88 and sim.tracker_alive and kills_left > 0:
                kills_left -= 1
                live = [k for k, a in enumerate(sim.tracker_alive) if a]
                k = rng.choice(live) if live and rng.random() < 0.8 else rng.randrange(len(sim.tracker_alive))
                steps.append(["sig", k, "kill"])
                sim.tracker_alive[k] = False
                users = [m for m in sorted(sim.alive) if sim.trk[m] == k]
                if users and rng.random() < 0.6:
                    # the next use of the dead tracker: by several threads at once, or by a non-main thread with a
                    # signal right after the relaunch
                    q = rng.choice(users)
                    if rng.random() < 0.6:
                        group(q)
                    else:
                        steps.append(["opsig", q, "register", rng.choice(sim.files), rng.choice(["int", "term"]), "thread"])
                        sim.ensure(q)
            elif len(sim.alive) > 1:
                self._death(rng, sim, steps, p)
        order = sorted(sim.alive)
        rng.shuffle(order)
        while sim.alive:
            # soft exits only for members without live children (a normal exit joins its children first)
            p = next(m for m in order if m in sim.alive)
            if rng.random() < 0.5:
                leaves = [m for m in order if m in sim.alive and not sim.live_children(m)]
                p = rng.choice(leaves)
            if rng.random() < 0.25 and sim.tracker_alive:
                steps.append(["sig", rng.randrange(len(sim.tracker_alive)), rng.choice(["int", "term"])])
            self._death(rng, sim, steps, p)
        steps.append(["end"])
        return {"steps": steps}

    @staticmethod
    def _death(rng, sim, steps, p):
        if sim.live_children(p) or p in sim.must_crash:
            how = rng.choice(KILLISH)
        else:
            how = rng.choice(KILLISH + SOFT)
        steps.append(["exit", p, how])
        sim.die(p)

    # ------------------------------------------------------------------ model
    def model_lines_of_step(self, case, st):
        k = st[0]
        if k in ("start", "end"):
            return [k]
        if k == "spawn":
            pairs = ",".join(f"{a}:{b}" for a, b in st[4]) or "-"
            imp = ""
            if len(st) > 5 and st[5]:
                imp = f" {st[5][1]}" if st[5][0] == "file" else f" L{st[5][1]}"
            return [f"spawn {st[1]} {st[2]} {st[3]} {pairs}{imp}"]
        if k == "new":
            return [f"new {st[1]} {st[2]} {NSEMS[st[3]]}"]
        if k == "pop":          # the delay (st[4]) is a configuration of the real side only
            return [f"pop {st[1]} {st[2]} {','.join(str(f) for f in st[3])}"]
        if k == "pnew":
            return [f"pnew {st[1]} {','.join(str(o) for o in st[2])} {NSEMS[st[3]]}"]
        return [" ".join(str(x) for x in st)]

    # ------------------------------------------------------------------ oracle (from the statement)
    def oracle(self, case, out):
        obs = out["obs"]
        steps = case["steps"]
        believed = {}            # member -> tracker incarnation it reported last
        alive_members = set()
        killed = set()           # incarnations that received SIGKILL while alive
        any_kill = False
        registered = {}          # file -> "plain" while only ever registered (no unregister / maybe_unlink)
        first_tracker_seen = False
        prev_alive = set()       # incarnations alive after the previous step
        for st, o in zip(steps, obs):
            kind = st[0]
            act = o.get("act") or {}
            if o.get("skipped"):
                continue
            if kind == "start":
                alive_members.add(0)
            holders = {k: [m for m in alive_members if believed.get(m) == k] for k in prev_alive}
            # ---- operations must not fail, whatever happened to the tracker, whichever thread does them
            if kind in TRACKED + ("info", "mkfile") and act.get("ok") is False:
                return f"step {st}: the operation raised {act.get('exc')}: {act.get('msg')}"
            if kind in ("pop", "pnew") and act.get("errors"):
                return f"step {st}: a tracked operation done by a thread of member {st[1]} raised {act['errors'][0]}"
            p = st[1] if kind in TRACKED + ("info",) else None
            # ---- self-healing
            if kind in TRACKED:
                warns = [w for w in act.get("warnings", []) if RELAUNCH in w]
                old = believed.get(p)
                new = o.get("trk")
                launched = o.get("launched", 0)
                thr = o.get("thr_trks") or []
                if any(t != new for t in thr):
                    return (f"step {st}: the threads of member {p} report different trackers {sorted(set(map(str, thr)))} "
                            f"right after their operations (the member ends with {new})")
                if old is not None and old in killed:
                    if new == old or new is None:
                        return f"step {st}: tracker incarnation {old} was killed but member {p} still reports it after a tracked operation"
                    if len(warns) != 1:
                        return f"step {st}: relaunch after a tracker death issued {len(warns)} warnings, expected exactly one"
                    if launched != 1:
                        return (f"step {st}: the tracker of member {p} was killed once; its next tracked operation(s) "
                                f"launched {launched} tracker processes, expected exactly one")
                else:
                    if warns:
                        return f"step {st}: 'relaunching' warning although the tracker of member {p} was not killed"
                    if old is not None and new != old:
                        return f"step {st}: member {p} switched from tracker {old} to {new} although {old} was not killed"
                    want = 1 if old is None else 0
                    if launched != want:
                        return (f"step {st}: member {p} launched {launched} tracker processes, expected {want} "
                                f"({'first use of the tracker in the tree' if want else 'its tracker is alive'})")
                if new is not None and (kind != "opsig" or st[4] != "kill") and new not in o["alive"]:
                    return f"step {st}: member {p} reports tracker {new} which is not alive after the operation"
                believed[p] = new
                first_tracker_seen = first_tracker_seen or new is not None
            if kind == "info":
                if believed.get(p) is not None and o.get("trk") != believed[p]:
                    return f"step {st}: member {p} changed its tracker without a tracked operation"
            # ---- one tracker for the tree: the child gets its parent's tracker
            if kind == "spawn":
                c = st[2]
                if o.get("child_died_at_startup"):
                    return f"step {st}: child {c} ended before it could run (start-up failed)"
                alive_members.add(c)
                imp = o.get("import")
                if imp is not None:
                    # ... also for what its main module does while it is re-imported, before the target runs
                    if not imp.get("ok"):
                        return (f"step {st}: the tracked operation at import time of child {c}'s main module raised "
                                f"{imp.get('exc')}: {imp.get('msg')}")
                    if imp.get("trk") != o.get("trk") or imp.get("launched"):
                        return (f"step {st}: at import time of its main module child {c} used tracker incarnation "
                                f"{imp.get('trk')} (it launched {imp.get('launched')} tracker process(es) itself), its "
                                f"parent {p} reports {o.get('trk')}: not one tracker for the tree")
                    if any(RELAUNCH in w for w in imp.get("warnings", [])):
                        return f"step {st}: child {c} issued a 'relaunching' warning at import time"
                if o.get("child_trk") != o.get("trk"):
                    return (f"step {st}: child {c} reports tracker incarnation {o.get('child_trk')}, its parent "
                            f"{p} reports {o.get('trk')}")
                if not o.get("child_fd_same"):
                    return f"step {st}: child {c} did not receive its parent's tracker fd"
                believed[c] = o.get("child_trk")
                if not any_kill and o.get("child_trk") != 0:
                    return f"step {st}: no tracker was killed, yet child {c} does not use the root's tracker"
            if not any_kill:
                bad = {m: t for m, t in believed.items() if t not in (None, 0)}
                if bad:
                    return f"step {st}: no tracker was killed, yet members report other incarnations than the root's: {bad}"
                if o.get("ntrk", 0) > 1 or len(o["alive"]) > 1:
                    return (f"step {st}: no tracker was killed, yet {max(o.get('ntrk', 0), len(o['alive']))} tracker "
                            f"processes were started in the tree (alive now: {o['alive']}): not a single tracker")
            # ---- signals
            if kind in ("sig", "opsig"):
                sg = st[2] if kind == "sig" else st[4]
                k = st[1] if kind == "sig" else o.get("trk")
                if sg == "kill":
                    if kind == "opsig" or o.get("was_alive"):
                        killed.add(k)
                        any_kill = True
                else:
                    was = o.get("was_alive", True) if kind == "sig" else True
                    if was and k is not None and not o.get("no_such_tracker") and k not in o["alive"]:
                        # it may legitimately have finished only if nobody holds its pipe -- then it was not alive before
                        return f"step {st}: tracker incarnation {k} did not survive SIG{sg.upper()}"
            # ---- file life
            if kind in ("op", "opsig"):
                f = st[3]
                if st[2] == "register":
                    registered.setdefault(f, "plain")
                else:
                    registered[f] = "touched"
            if kind == "pop":
                for f in st[3]:
                    if st[2] == "register":
                        registered.setdefault(f, "plain")
                    else:
                        registered[f] = "touched"
            if kind == "spawn" and len(st) > 5 and st[5] and st[5][0] == "file":
                registered.setdefault(st[5][1], "plain")
            if kind == "exit":
                alive_members.discard(st[1])
            # ---- a tracker ends only by SIGKILL, or once no live process of the tree holds its pipe
            for k in sorted(prev_alive - set(o["alive"]) - killed):
                left = [m for m in holders.get(k, []) if m in alive_members]
                if left:
                    return (f"step {st}: tracker incarnation {k} was not killed, members {left} using it are alive, "
                            f"yet it ended (its pipe was closed under it / it did its end-of-life cleanup early)")
            prev_alive = set(o["alive"])
            # ---- cleanup only after the last member is gone (single-tracker regime)
            if not any_kill and first_tracker_seen:
                if alive_members:
                    if 0 not in o["alive"]:
                        return f"step {st}: members {sorted(alive_members)} are alive but the tracker is gone"
                    for f, state in registered.items():
                        if state == "plain" and f not in o["files"]:
                            return (f"step {st}: tracked file {f} was removed while members {sorted(alive_members)} "
                                    f"of the tree are still alive")
                elif kind in ("exit", "end"):
                    if o["alive"]:
                        return f"step {st}: every member is gone but tracker(s) {o['alive']} did not finish"
                    for f, state in registered.items():
                        if state == "plain" and f in o["files"]:
                            return f"step {st}: every member is gone and the tracker finished, but tracked file {f} is still there"
        return None

    def nontrivial(self, case, out):
        ks = [s[0] for s in case["steps"]]
        return "spawn" in ks and ks.count("exit") >= 2

    def classify(self, case, out):
        ks = []
        depth = {0: 0}
        for s in case["steps"]:
            if s[0] == "spawn":
                depth[s[2]] = depth[s[1]] + 1
                ks.append("method=" + s[3])
            elif s[0] == "exit":
                ks.append("death=" + s[2])
            elif s[0] == "sig":
                ks.append("sig=" + s[2])
            elif s[0] == "opsig":
                ks.append("startup-sig=" + s[4] + ("/non-main-thread" if s[-1] in ("thread", "pool") else ""))
            elif s[0] == "op" and s[-1] in ("thread", "pool"):
                ks.append("op-from-non-main-thread")
            elif s[0] in ("pop", "pnew"):
                ks.append(f"concurrent-{s[0]}" + ("/delayed" if s[4] else "/natural"))
            if s[0] == "spawn" and len(s) > 5 and s[5]:
                ks.append("import-time-" + s[5][0])
        ks.append(f"depth={max(depth.values())}")
        ks.append(f"members={len(depth)}")
        if case["steps"][2:] and any(s[0] == "exit" and s[1] == 0 for s in case["steps"][:-2]):
            pass
        first_exit = next((s for s in case["steps"] if s[0] == "exit"), None)
        if first_exit is not None and first_exit[1] == 0 and len(depth) > 1:
            ks.append("root-dies-first")
        return ks

    def shrink_candidates(self, case):
        steps = case["steps"]
        for i, s in enumerate(steps):
            if s[0] in ("info", "sig") or (s[0] == "op" and s[2] != "register"):
                yield dict(case, steps=steps[:i] + steps[i + 1:])

    def correspondence(self, ctx, corr):
        self._tier = ctx.tier
        super().correspondence(ctx, corr)
        corr.extra["exhaustive_small_trees"] = 24 if ctx.tier == "thorough" else 0

    def search(self, ctx, corr, broken):
        self._tier = ctx.tier
        return super().search(ctx, corr, broken)


PROP = Prop()
