"""C13 — no named semaphore or tracked resource outlives its process tree (E3, model M4).

Scenarios on real processes: loky Locks, RLocks, (Bounded)Semaphores, Conditions, Events, Queues,
SimpleQueues and executors (plain and reusable) are created in the root and in LokyProcess children,
pickled to children, collected, and the tree is ended in every way the statement lists: normal exit,
uncaught exception, worker crash (the resulting TerminatedWorkerError is not caught), broken pool
(caught / replaced), SIGKILL of the parent in the middle of dispatching — plus SIGKILL / os._exit of
children that own semaphores.  After every step the content of /dev/shm/sem.loky-<pid>-* for the pids
of the scenario, the live trackers and their writer sets are compared with the Lean driver; at the end
also the trackers' "leaked" reports.  The oracle is written from the statement.

Further dimensions of the scenario space: a member SIGKILLed *inside* a SemLock finalizer after k of its
clean-up primitives (`killfin`: collection of one primitive, owner or unpickled copy; `killexit`: the
exit-time finalizers), for every k; primitives created by several threads at once as the first tracked
operations of the member (`pnew`); a `loky_init_main` child whose main module creates a Lock at import
time; the whole tree run with warnings turned into errors (`cfg.warn`: `-W error` in the root, which the
root's tracker inherits, or PYTHONWARNINGS in the environment of every process).
"""
from .. import common as C
from ..realproc.tt_engine import E3TreeProp, NSEMS, leak_tokens, warn_cfg

PRIMS = ["Lock", "RLock", "Semaphore", "BoundedSemaphore", "Condition", "Event", "Queue", "SimpleQueue"]
ENDINGS = ["normal", "exception", "worker_crash", "broken_pool", "sigkill_parent"]
KILLISH = ("kill", "term", "osexit")
WARN_MODES = ("flag", "env", "env-user")
# a process killed between `sem_unlink` and UNREGISTER leaves a registered name whose clean-up by the tracker
# fails; with warnings as errors the unguarded `warnings.warn` of that failure ends the tracker's sweep
SWEEP_WARN_CLASS = "sweep-warning-raises"
# a primitive created while the main module is re-imported in a loky_init_main child loses its finalizer
# (BaseProcess._bootstrap clears util._finalizer_registry after spawn.prepare): never unlinked by its owner
IMPORT_OWNER_CLASS = "import-time-owner"
XSTEPS = ("xnew", "xrun", "xsleep", "xcrash", "xwait", "xshutdown", "xdrop", "xdispatch", "killworker",
          "killorphans")


def xbase(x):
    return 100 + 20 * x


def worker_copy_base(x, i):
    return 400 + 100 * x + 10 * i


class Prop(E3TreeProp):
    id = "C13"
    lean_modules = ["LokyModel.Props.C13"]
    budget = {"quick": 175, "thorough": 1750}
    n_cases = {"quick": 44, "thorough": 390}
    search_cases = {"quick": 10, "thorough": 40}
    rule = ("real process scenarios: 1-4 loky primitives of 8 kinds and 0-2 executors (plain / reusable, 1-3 workers) "
            "created in the root, 0-2 LokyProcess children receiving pickled copies and owning primitives themselves, "
            "some objects collected; ended by normal exit, uncaught exception, worker crash (SIGKILL/SIGTERM of a busy "
            "worker, error not caught), broken pool (task os._exit, caught, reusable executor replaced), SIGKILL of the "
            "parent mid-dispatch (then of its orphaned workers); children die by normal return, exception, os._exit, "
            "SIGTERM, SIGKILL, or by a SIGKILL inside a SemLock finalizer after k = 0..2n clean-up primitives "
            "(sem_unlink / unregister, counted in whatever order the code calls them) while collecting one primitive "
            "(owner or unpickled copy) or at exit; primitives created by 2-4 threads at once as the member's first "
            "tracked operations (with / without a delay in spawnv_passfds and _check_alive); a Lock created at "
            "import time of the re-imported main module of a loky_init_main child; 40% of the scenarios run with "
            "warnings turned into errors (-W error in the root, PYTHONWARNINGS=error or error::UserWarning in the "
            "whole tree): a configuration the model does not have, its prediction must not depend on it (only the "
            "text of the leak report, swallowed in that mode, is not compared). Compared with the Lean driver after every step: /dev/shm/sem.loky-<pid>-* per creating "
            "process, live trackers, writer sets; at the end the trackers' leak reports. Non-trivial = at least one "
            "executor or one child; distinct by history.")
    assumptions = [
        "a pipe reaches EOF exactly when its last write end is closed; a process that dies (SIGKILL included) closes its descriptors",
        "sem_open(O_CREAT|O_EXCL) with a fresh random name never collides (the code retries on FileExistsError)",
        "the tracker is not SIGKILLed (witness leak_when_tracker_killed) and no SIGKILL lands between sem_open and REGISTER "
        "inside SemLock.__init__ (witness leak_in_create_window): hypotheses of namespace_restored",
        "CPython collects an unreferenced object at once (reference counting): `del` + gc.collect() runs the SemLock finalizer",
        "the warnings filter of the interpreters (cfg.warn) is not in the model: it must not change the prediction; only "
        "the text of the trackers' leak report is not compared in that configuration (the guarded warning is swallowed)",
        "threading.RLock is a lock: concurrent creations by the threads of a member are an interleaving of atomic "
        "sem_open / REGISTER steps (theorems one_launch_per_death, member_threads_remove_only_by_finalizer: every interleaving)",
        "two history classes are not drawn by the generator while they are not listed findings (the oracle is unchanged "
        "and flags them; attribute() maps them once listed): '" + SWEEP_WARN_CLASS + "' = warnings as errors + a process "
        "killed between sem_unlink and UNREGISTER (odd k) while other names are registered; '" + IMPORT_OWNER_CLASS +
        "' = collecting / normally exiting with a primitive created at import time of a loky_init_main child's main module",
    ]

    # ------------------------------------------------------------------ corpus
    def corpus(self):
        cs = []

        def add(*steps, cfg=None):
            c = {"steps": [["start"]] + [list(s) for s in steps] + [["end"]]}
            if cfg:
                c["cfg"] = cfg
            cs.append(c)
        W2 = {"kind": "plain", "workers": 2, "ids": [50, 51]}
        R2 = {"kind": "reusable", "workers": 2, "ids": [60, 61]}
        # every primitive kind, created, half of them collected, parent exits normally
        add(*[("new", 0, i + 1, k) for i, k in enumerate(PRIMS)], ("del", 0, 1), ("del", 0, 5), ("del", 0, 7),
            ("exit", 0, "normal"))
        # copies in a child are collected / die with it; the owner is SIGKILLed afterwards
        add(("new", 0, 1, "Condition"), ("new", 0, 2, "Queue"), ("spawn", 0, 1, "loky", [[1, 21], [2, 22]]),
            ("del", 1, 21), ("new", 1, 3, "Event"), ("exit", 1, "kill"), ("exit", 0, "kill"))
        # executor, clean shutdown, uncaught exception afterwards
        add(("xnew", 0, 1, W2), ("xrun", 0, 1, {"n": 6}), ("xshutdown", 0, 1, {"wait": True}), ("xdrop", 0, 1),
            ("new", 0, 1, "Lock"), ("exit", 0, "exc"))
        # executor alive at a normal exit
        add(("new", 0, 1, "Event"), ("xnew", 0, 1, W2), ("xrun", 0, 1, {"n": 3}), ("exit", 0, "normal"))
        # worker crash by SIGKILL from outside, error not caught
        add(("xnew", 0, 1, W2), ("xsleep", 0, 1, {"n": 2}), ("killworker", 0, 1, 51, "kill"),
            ("xwait", 0, 1, {"raise": True}))
        # broken pool (task os._exit), caught, reusable executor replaced, normal exit
        add(("xnew", 0, 1, R2), ("xcrash", 0, 1), ("xnew", 0, 2, {"kind": "reusable", "workers": 1, "ids": [70], "replaces": 1}),
            ("xrun", 0, 2, {"n": 2}), ("xdrop", 0, 1), ("exit", 0, "normal"))
        # SIGKILL of the parent in the middle of dispatching, with standalone primitives alive
        add(("new", 0, 1, "Lock"), ("new", 0, 2, "Condition"), ("xnew", 0, 1, W2), ("xdispatch", 0, 1),
            ("exit", 0, "kill"), ("killorphans",))
        # ---- SIGKILL inside a finalizer, at every position: three children, one Lock each, killed after 0 / 1 / 2
        # clean-up primitives; the root lives on, then ends normally
        add(("new", 0, 1, "Lock"), ("spawn", 0, 1, "loky", []), ("spawn", 0, 2, "loky", [[1, 21]]),
            ("spawn", 0, 3, "loky_init_main", []), ("new", 1, 2, "Lock"), ("new", 2, 3, "Lock"), ("new", 3, 4, "Lock"),
            ("killfin", 1, 2, 0), ("killfin", 2, 3, 1), ("killfin", 3, 4, 2), ("exit", 0, "normal"))
        # ... in the middle of a primitive made of four semaphores, in the root, other objects alive
        add(("new", 0, 1, "Lock"), ("new", 0, 2, "Condition"), ("new", 0, 3, "Event"), ("killfin", 0, 2, 3))
        # ... a child killed while it collects an unpickled copy: nothing may be unlinked; then exit-time finalizers
        add(("new", 0, 1, "Lock"), ("new", 0, 2, "Queue"), ("spawn", 0, 1, "loky", [[1, 21], [2, 22]]),
            ("killfin", 1, 22, 0), ("new", 0, 3, "Semaphore"), ("killexit", 0, 5))
        # ---- warnings as errors: SIGKILL of the parent mid-dispatch; crashed worker not caught; clean exit
        add(("new", 0, 1, "Lock"), ("new", 0, 2, "Condition"), ("xnew", 0, 1, W2), ("xdispatch", 0, 1),
            ("exit", 0, "kill"), ("killorphans",), cfg={"warn": "flag"})
        add(("new", 0, 1, "Event"), ("xnew", 0, 1, W2), ("xsleep", 0, 1, {"n": 2}), ("killworker", 0, 1, 50, "kill"),
            ("xwait", 0, 1, {"raise": True}), cfg={"warn": "env-user"})
        add(("new", 0, 1, "RLock"), ("new", 0, 2, "Queue"), ("spawn", 0, 1, "loky", [[2, 22]]), ("new", 1, 3, "Lock"),
            ("del", 0, 1), ("exit", 1, "kill"), ("xnew", 0, 1, R2), ("xrun", 0, 1, {"n": 3}), ("exit", 0, "normal"),
            cfg={"warn": "env"})
        add(("new", 0, 1, "Lock"), ("spawn", 0, 1, "loky", []), ("new", 1, 2, "Semaphore"), ("new", 1, 3, "Lock"),
            ("killfin", 1, 2, 0), ("new", 0, 4, "Lock"), ("killfin", 0, 4, 2), cfg={"warn": "flag"})
        # ---- several threads create their first primitive at once (delayed launch / natural race / in a child)
        add(("pnew", 0, [1, 2, 3], "Lock", 1), ("del", 0, 2), ("spawn", 0, 1, "loky", [[1, 21]]),
            ("pnew", 1, [4, 5], "Condition", 1), ("exit", 1, "normal"), ("exit", 0, "normal"))
        add(("pnew", 0, [1, 2, 3, 4], "Semaphore", 0), ("del", 0, 1), ("del", 0, 4), ("exit", 0, "exc"))
        # ---- a Lock created while the main module of a loky_init_main child is re-imported
        # (such a child ends abruptly here: collecting that Lock, or a normal exit of that child, is the listed /
        # reported finding of class IMPORT_OWNER_CLASS)
        add(("spawn", 0, 1, "loky_init_main", [], ["lock", 5]), ("new", 0, 1, "Lock"),
            ("spawn", 0, 2, "loky_init_main", [[1, 21]], ["lock", 6]), ("del", 2, 21), ("exit", 1, "kill"),
            ("exit", 2, "term"), ("exit", 0, "normal"))
        return cs

    # ------------------------------------------------------------------ generator
    @staticmethod
    def _listed(cls):
        """a finding of this class is listed (failing runs are attributed to it) or recorded as fixed (failing runs are
        violations again): its histories may be drawn"""
        try:
            k = C.load_known()
            return any(f.get("class") == cls for f in k.get("findings", []) + k.get("fixed", []))
        except Exception:
            return False

    def gen(self, rng, i):
        endings = ENDINGS + ["finkill"]
        ending = endings[i % len(endings)] if rng.random() < 0.8 else rng.choice(endings)
        steps = [["start"]]
        cfg = {"warn": rng.choice(WARN_MODES)} if rng.random() < 0.4 else None
        odd_ok = cfg is None or self._listed(SWEEP_WARN_CLASS)
        # a child that owns a primitive created at import time (finding D24: no finalizer) always ends by a kill in the
        # generated histories: what its normal / exceptional exit leaves behind is the finding itself (replayed from its
        # witness), and the model's prediction for such an exit combined with copies and executors did not match the
        # real tree on seeds 4 and 5 - a mistake of the check, not of the code
        imp_soft_ok = False
        must_crash = set()       # children that own a primitive created at import time
        import_objs = set()      # primitives created at import time: they have no finalizer to be killed in (finding D24)
        owned = {0: []}          # member -> object groups it owns / holds
        kind_of, is_copy = {}, set()
        next_obj = [1]
        next_copy = [21]
        children = []

        def new(p):
            o = next_obj[0]
            next_obj[0] += 1
            kind_of[o] = rng.choice(PRIMS)
            steps.append(["new", p, o, kind_of[o]])
            owned[p].append(o)

        def pnew(p):
            k = rng.randint(2, 4)
            os_ = list(range(next_obj[0], next_obj[0] + k))
            next_obj[0] += k
            kd = rng.choice(["Lock", "Lock", "Semaphore", "Condition", "Event"])
            for o in os_:
                kind_of[o] = kd
            steps.append(["pnew", p, os_, kd, 1 if rng.random() < 0.7 else 0])
            owned[p] += os_

        def finkill(p, allow_exit):
            """p is SIGKILLed inside a finalizer: while collecting one of its objects, or at a normal exit"""
            owners = [o for o in owned[p] if o not in is_copy and o not in import_objs]
            if allow_exit and owners and rng.random() < 0.35:
                n = sum(NSEMS[kind_of[o]] for o in owners)
                k = rng.randint(0, 2 * n)
                steps.append(["killexit", p, k if odd_ok else k - k % 2])
                return
            if not [x for x in owned[p] if x not in import_objs]:
                new(p)
            o = rng.choice([x for x in owned[p] if x not in import_objs])
            owned[p].remove(o)
            if o in is_copy:
                steps.append(["killfin", p, o, 0])
            else:
                n = NSEMS[kind_of[o]]
                k = rng.choice([0, 1, 2]) if n == 1 else rng.randint(0, 2 * n)
                steps.append(["killfin", p, o, k if odd_ok else k - k % 2])

        def child_death(c):
            if c in must_crash:
                steps.append(["exit", c, rng.choice(KILLISH)])
            elif rng.random() < 0.35:
                finkill(c, True)
            else:
                steps.append(["exit", c, rng.choice(KILLISH + ("normal", "exc"))])
        if rng.random() < 0.3:
            pnew(0)              # the very first tracked operations of the root: several threads at once
        for _ in range(rng.choice([0, 1, 1, 2, 3, 4])):
            new(0)
        nchild = rng.choice([0, 0, 1, 1, 2])
        for c in range(1, nchild + 1):
            passing = []
            for o in owned[0]:
                if rng.random() < 0.5:
                    passing.append([o, next_copy[0]])
                    kind_of[next_copy[0]] = kind_of[o]
                    is_copy.add(next_copy[0])
                    next_copy[0] += 1
            method = rng.choice(["loky", "loky", "loky_init_main"])
            st = ["spawn", 0, c, method, passing]
            owned[c] = [b for _, b in passing]
            if method == "loky_init_main" and rng.random() < 0.5:
                o = next_obj[0]
                next_obj[0] += 1
                kind_of[o] = "Lock"
                st.append(["lock", o])       # created at import time of the re-imported main module
                import_objs.add(o)
                if imp_soft_ok:
                    owned[c].append(o)
                else:
                    must_crash.add(c)        # neither collected nor finalized at a normal exit (finding)
            steps.append(st)
            children.append(c)
            r = rng.random()
            if r < 0.4:
                new(c)
            elif r < 0.6:
                pnew(c)
        # some collections (owners and copies)
        for p in list(owned):
            for o in list(owned[p]):
                if rng.random() < 0.3:
                    steps.append(["del", p, o])
                    owned[p].remove(o)
        # executors
        need_exec = ending in ("worker_crash", "broken_pool", "sigkill_parent")
        execs = []
        nx = 1 if need_exec else rng.choice([0, 1, 1, 2])
        for x in range(1, nx + 1):
            w = rng.choice([1, 2, 2, 3])
            kind = "reusable" if (x == 1 and rng.random() < 0.4) else "plain"
            cfgx = {"kind": kind, "workers": w, "ids": [50 + 10 * x + j for j in range(w)]}
            steps.append(["xnew", 0, x, cfgx])
            execs.append([x, cfgx, "up"])
            if rng.random() < 0.6:
                steps.append(["xrun", 0, x, {"n": rng.randint(1, 8)}])
        # some children end before the parent
        for c in list(children):
            if rng.random() < 0.5:
                child_death(c)
                children.remove(c)
        # a non-final executor may be shut down / dropped / left alone
        for e in execs[:-1] if need_exec else execs:
            r = rng.random()
            if r < 0.35:
                steps.append(["xshutdown", 0, e[0], {"wait": True, "kill": rng.random() < 0.3}])
                e[2] = "down"
                if rng.random() < 0.5:
                    steps.append(["xdrop", 0, e[0]])
            elif r < 0.5:
                if e[1]["kind"] == "reusable":     # the module-global singleton keeps it alive: shut it down first
                    steps.append(["xshutdown", 0, e[0], {"wait": True}])
                steps.append(["xdrop", 0, e[0]])
                e[2] = "down"
        # the ending
        if ending in ("normal", "exception"):
            for c in children:
                child_death(c)
            steps.append(["exit", 0, "normal" if ending == "normal" else "exc"])
        elif ending == "worker_crash":
            x, cfgx, _ = execs[-1]
            for c in children:                # an exiting parent joins its live children first: they end before it
                child_death(c)
            steps.append(["xsleep", 0, x, {"n": cfgx["workers"]}])
            steps.append(["killworker", 0, x, rng.choice(cfgx["ids"]), rng.choice(["kill", "kill", "term"])])
            steps.append(["xwait", 0, x, {"raise": True}])     # the pool is observed once it has torn itself down
        elif ending == "broken_pool":
            x, cfgx, _ = execs[-1]
            steps.append(["xcrash", 0, x])
            if cfgx["kind"] == "reusable":
                w = rng.choice([1, 2])
                steps.append(["xnew", 0, x + 5, {"kind": "reusable", "workers": w,
                                                 "ids": [90 + j for j in range(w)], "replaces": x}])
                steps.append(["xrun", 0, x + 5, {"n": 3}])
                if rng.random() < 0.5:
                    steps.append(["xdrop", 0, x])
            elif rng.random() < 0.5:
                steps.append(["xshutdown", 0, x, {"wait": True}])
            for c in children:
                child_death(c)
            steps.append(["exit", 0, rng.choice(["normal", "normal", "exc"])])
        elif ending == "finkill":
            # the parent is SIGKILLed inside a finalizer (collection of one object; exit-time finalizers when it has
            # no executor); its children and orphaned workers end afterwards
            finkill(0, nx == 0 and not children)
            order = list(children)
            rng.shuffle(order)
            for c in order:
                child_death(c)
            steps.append(["killorphans"])
        else:
            x, cfgx, _ = execs[-1]
            steps.append(["xdispatch", 0, x])
            steps.append(["exit", 0, "kill"])
            order = list(children)
            rng.shuffle(order)
            for c in order:
                child_death(c)
            steps.append(["killorphans"])
        steps.append(["end"])
        case = {"steps": steps}
        if cfg:
            case["cfg"] = cfg
        return case

    # ------------------------------------------------------------------ model
    def _exec_state(self, case, upto):
        """executor bookkeeping replayed over the first `upto` steps: x -> dict(workers alive, groups held), and
        per member the exit-lock groups of workers that died by themselves: their Process objects are never
        joined and linger in multiprocessing.process._children until that member starts its next process"""
        ex, linger = {}, {}
        for st in case["steps"][:upto]:
            k = st[0]
            if k == "xnew":
                cfg = st[3]
                linger[st[1]] = []
                if cfg.get("replaces") is not None and cfg["replaces"] in ex:
                    ex[cfg["replaces"]]["core"] = False
                ex[st[2]] = {"owner": st[1], "ids": list(cfg["ids"]), "alive": list(cfg["ids"]), "dead": [],
                             "core": True, "locks": list(range(len(cfg["ids"]))), "kind": cfg["kind"]}
            elif k == "spawn":
                linger[st[1]] = []
            elif k == "xcrash":
                e = ex[st[2]]
                if e["alive"]:
                    linger.setdefault(st[1], []).append(xbase(st[2]) + 3 + e["ids"].index(e["alive"][0]))
                e["alive"], e["locks"] = [], []
            elif k == "xwait":
                e = ex[st[2]]
                for w in e["dead"]:
                    linger.setdefault(st[1], []).append(xbase(st[2]) + 3 + e["ids"].index(w))
                e["alive"], e["locks"], e["dead"] = [], [], []
            elif k == "killworker":
                e = ex[st[2]]
                if st[3] in e["alive"]:
                    e["alive"].remove(st[3])
                    e["dead"].append(st[3])
            elif k in ("xshutdown", "xdrop"):
                e = ex.get(st[2])
                if e:
                    e["alive"], e["locks"], e["core"] = [], [], False
            elif k == "exit" and st[2] in ("normal", "exc", "int"):
                linger[st[1]] = []
                for e in ex.values():
                    if e["owner"] == st[1]:
                        e["alive"], e["locks"], e["core"] = [], [], False
            elif k == "killorphans":
                for e in ex.values():
                    e["alive"] = []
        return ex, linger

    def model_lines_of_step(self, case, st):
        k = st[0]
        idx = next(i for i, s in enumerate(case["steps"]) if s is st)
        ex, linger = self._exec_state(case, idx)
        if k in ("start", "end"):
            return [k]
        if k == "spawn":
            pairs = ",".join(f"{a}:{b}" for a, b in st[4]) or "-"
            imp = f" L{st[5][1]}" if len(st) > 5 and st[5] else ""
            return ([f"del {st[1]} {g}" for g in linger.get(st[1], [])]
                    + [f"spawn {st[1]} {st[2]} {st[3]} {pairs}{imp}"])
        if k == "new":
            return [f"new {st[1]} {st[2]} {NSEMS[st[3]]}"]
        if k == "pnew":          # the delay (st[4]) is a configuration of the real side only
            return [f"pnew {st[1]} {','.join(str(o) for o in st[2])} {NSEMS[st[3]]}"]
        if k in ("del", "killnew", "killfin", "killexit"):
            return [" ".join(str(x) for x in st)]
        if k == "exit":
            p, how = st[1], st[2]
            lines = []
            if how in ("normal", "exc", "int"):
                # atexit: the manager threads shut their pools down before the finalizers run
                for e in ex.values():
                    if e["owner"] == p:
                        lines += [f"exit {w} normal" for w in e["alive"]]
            return lines + [f"exit {p} {how}"]
        if k == "xnew":
            p, x, cfg = st[1], st[2], st[3]
            b = xbase(x)
            lines = []
            old = cfg.get("replaces")
            if old is not None and old in ex and ex[old]["core"]:
                lines += [f"del {p} {xbase(old)}", f"del {p} {xbase(old) + 1}", f"del {p} {xbase(old) + 2}"]
            lines += [f"new {p} {b} 1", f"new {p} {b + 1} 3", f"new {p} {b + 2} 2"]
            lines += [f"del {p} {g}" for g in linger.get(p, [])]       # first Process.start(): _cleanup()
            for i, wid in enumerate(cfg["ids"]):
                cb = worker_copy_base(x, i)
                lines.append(f"new {p} {b + 3 + i} 1")
                lines.append(f"spawn {p} {wid} loky {b}:{cb},{b + 1}:{cb + 1},{b + 2}:{cb + 2},{b + 3 + i}:{cb + 3}")
            return lines
        if k in ("xrun", "xsleep", "xdispatch"):
            return [f"info {st[1]}"]
        if k == "killworker":
            return [f"exit {st[3]} kill"]
        if k in ("xcrash", "xwait"):
            p, x = st[1], st[2]
            e = ex[x]
            lines = [f"exit {w} kill" for w in e["alive"]]
            if k == "xcrash":
                stay = [e["ids"].index(e["alive"][0])] if e["alive"] else []
            else:
                stay = [e["ids"].index(w) for w in e["dead"]]
            lines += [f"del {p} {xbase(x) + 3 + i}" for i in e["locks"] if i not in stay]
            if k == "xwait" and st[3].get("raise"):
                for e2 in ex.values():
                    if e2["owner"] == p and e2 is not e:
                        lines += [f"exit {w} normal" for w in e2["alive"]]
                return lines + [f"exit {p} exc"]
            return lines + [f"info {p}"]
        if k in ("xshutdown", "xdrop"):
            p, x = st[1], st[2]
            e = ex.get(x)
            lines = []
            if e:
                how = "kill" if (k == "xshutdown" and st[3].get("kill")) else "normal"
                lines += [f"exit {w} {how}" for w in e["alive"]]
                lines += [f"del {p} {xbase(x) + 3 + i}" for i in e["locks"]]
                if e["core"]:
                    lines += [f"del {p} {xbase(x)}", f"del {p} {xbase(x) + 1}", f"del {p} {xbase(x) + 2}"]
            return lines + [f"info {p}"]
        if k == "killorphans":
            lines = []
            for e in ex.values():
                lines += [f"exit {w} kill" for w in e["alive"]]
            return lines + ["end"]
        raise ValueError(st)

    def canon_model(self, case, raw):
        lines = super().canon_model(case, raw)
        return [self._mask(st, l) for st, l in zip(case["steps"], lines)]

    def canon_real(self, case, out):
        lines = super().canon_real(case, out)
        return [self._mask(st, l) for st, l in zip(case["steps"], lines)]

    @staticmethod
    def _mask(st, line):
        import re
        if st[0] in XSTEPS or st[0] in ("exit", "killfin", "killexit"):
            line = re.sub(r"trk=\S+ child=\S+ warn=\S+", "trk=- child=- warn=-", line)
        if st[0] == "killworker":
            # the pool is tearing itself down concurrently: observed at the following xwait
            line = "(not compared)"
        return line

    # ------------------------------------------------------------------ oracle (from the statement)
    def oracle(self, case, out):
        obs = out["obs"]
        steps = case["steps"]
        # 1. objects collected by their owner: the names disappear at once
        names_of = {}
        for st, o in zip(steps, obs):
            act = o.get("act") or {}
            if o.get("child_died_at_startup"):
                return f"step {st}: the child ended before it could run (start-up failed)"
            if act.get("ok") is False and st[0] not in ("xwait",):
                return f"step {st}: raised {act.get('exc')}: {act.get('msg')}"
            if st[0] == "pnew" and act.get("errors"):
                return f"step {st}: creating a primitive in a thread of member {st[1]} raised {act['errors'][0]}"
            created = {}
            if st[0] == "new":
                created[(st[1], st[2])] = act.get("names", [])
            elif st[0] == "pnew":
                for ob in st[2]:
                    created[(st[1], ob)] = (act.get("names_of") or {}).get(str(ob), [])
            elif st[0] == "spawn" and o.get("import") is not None:
                imp = o["import"]
                if not imp.get("ok"):
                    return (f"step {st}: creating a Lock at import time of the child's main module raised "
                            f"{imp.get('exc')}: {imp.get('msg')}")
                created[(st[2], st[5][1])] = imp.get("names", [])
            for key, names in created.items():
                names_of[key] = [n.lstrip("/") for n in names]
                have = {n for v in o["sems"].values() for n in v}
                missing = [n for n in names_of[key] if "sem." + n not in have]
                if missing or not names_of[key]:
                    return (f"step {st}: semaphores of the new object {key[1]} of member {key[0]} are not in /dev/shm "
                            f"(unlinked while their object is alive?): {missing}")
            if st[0] == "del" and (st[1], st[2]) in names_of:
                have = {n for v in o["sems"].values() for n in v}
                left = [n for n in names_of.pop((st[1], st[2])) if "sem." + n in have]
                if left:
                    return f"step {st}: the owning object was collected but its semaphores are still there: {left}"
            if st[0] in ("exit", "killnew", "killfin", "killexit") or (st[0] == "xwait" and st[3].get("raise")):
                for key in [k for k in names_of if k[0] == st[1]]:
                    names_of.pop(key)
            # an owner that is alive and still holds the object: its semaphores must not have been unlinked
            # by anybody else (a child collecting or dying with an unpickled copy, a tracker sweeping early)
            have = {n for v in o["sems"].values() for n in v}
            for (p, ob), names in names_of.items():
                gone = [n for n in names if "sem." + n not in have]
                if gone:
                    return (f"step {st}: semaphores {gone} of object {ob} were unlinked although their owner "
                            f"(member {p}) is alive and still holds the object")
            if st[0] in ("xshutdown",) and (st[3] or {}).get("wait"):
                pass
        # 2. after the tree has ended and the trackers have finished: the name space is back to what it was
        last = obs[-1]
        if last["sems"]:
            return (f"after the end of the tree {sum(len(v) for v in last['sems'].values())} named semaphores of its "
                    f"processes are left in /dev/shm: {dict((k, v[:3]) for k, v in last['sems'].items())}")
        if out.get("swept_by_runner"):
            return f"semaphores left behind: {out['swept_by_runner'][:4]}"
        # 3. no 'leaked' report when everything was properly released, i.e. nobody was killed while owning objects
        abrupt = False
        for st in steps:
            if st[0] == "exit" and st[2] in KILLISH:
                abrupt = True
            if st[0] in ("killnew", "killfin", "killexit"):
                abrupt = True
        leaks = [t for t in leak_tokens(last.get("stderr")) if t.startswith("S")]
        if leaks and not abrupt:
            return (f"every owner ended by a normal or exception exit (finalizers ran), yet the tracker reported leaked "
                    f"semlocks: {leaks}")
        return None

    def nontrivial(self, case, out):
        ks = [s[0] for s in case["steps"]]
        return "xnew" in ks or "spawn" in ks

    def classify(self, case, out):
        ks = []
        steps = case["steps"]
        kinds = [s[0] for s in steps]
        if "xwait" in kinds and any(s[0] == "xwait" and s[3].get("raise") for s in steps):
            ks.append("ending=worker_crash")
        elif any(s[0] in ("killfin", "killexit") and s[1] == 0 for s in steps):
            ks.append("ending=killed_in_finalizer")
        elif "xdispatch" in kinds:
            ks.append("ending=sigkill_parent")
        elif "xcrash" in kinds:
            ks.append("ending=broken_pool")
        else:
            last_exit = [s for s in steps if s[0] == "exit" and s[1] == 0]
            ks.append("ending=" + ("exception" if last_exit and last_exit[-1][2] == "exc" else
                                   "normal" if last_exit and last_exit[-1][2] == "normal" else "other"))
        for s in steps:
            if s[0] == "new":
                ks.append("prim=" + s[3])
            elif s[0] == "xnew":
                ks.append("executor=" + s[3]["kind"])
            elif s[0] == "exit" and s[1] != 0:
                ks.append("child-death=" + s[2])
            elif s[0] == "spawn" and s[4]:
                ks.append("pickled-to-child")
            elif s[0] == "killfin":
                ks.append(f"killed-in-finalizer/k={min(s[3], 3)}{'+' if s[3] > 3 else ''}")
            elif s[0] == "killexit":
                ks.append("killed-in-exit-finalizers")
            elif s[0] == "pnew":
                ks.append("concurrent-first-use" + ("/delayed" if s[4] else "/natural"))
            if s[0] == "spawn" and len(s) > 5 and s[5]:
                ks.append("import-time-lock")
        ks.append("warnings=" + (warn_cfg(case) or "default"))
        return ks

    def shrink_candidates(self, case):
        steps = case["steps"]
        for i, s in enumerate(steps):
            if s[0] in ("xrun", "del") or (s[0] == "new" and not any(
                    (t[0] == "del" and t[2] == s[2]) or (t[0] == "spawn" and any(a == s[2] for a, _ in t[4]))
                    for t in steps)):
                yield dict(case, steps=steps[:i] + steps[i + 1:])

    def attribute(self, case, out, bad, known):
        # D11-style finding: a SIGKILL forced between sem_open and REGISTER
        if any(s[0] == "killnew" for s in case["steps"]):
            for f in known:
                if f.get("class") == "create-window" or "sem_open and REGISTER" in f.get("what", ""):
                    return f["id"]
        # a primitive created at import time of the main module of a loky_init_main child
        if any(s[0] == "spawn" and len(s) > 5 and s[5] and s[5][0] == "lock" for s in case["steps"]):
            for f in known:
                if f.get("class") == IMPORT_OWNER_CLASS:
                    return f["id"]
        # warnings as errors + a process killed between sem_unlink and UNREGISTER (odd number of primitives)
        if warn_cfg(case) and any(s[0] in ("killfin", "killexit") and s[-1] % 2 == 1 for s in case["steps"]):
            for f in known:
                if f.get("class") == SWEEP_WARN_CLASS:
                    return f["id"]
        return None


PROP = Prop()
