"""C13 — no named semaphore or tracked resource outlives its process tree (E3, model M4).

Scenarios on real processes: loky Locks, RLocks, (Bounded)Semaphores, Conditions, Events, Queues,
SimpleQueues and executors (plain and reusable) are created in the root and in LokyProcess children,
pickled to children, collected, and the tree is ended in every way the statement lists: normal exit,
uncaught exception, worker crash (the resulting TerminatedWorkerError is not caught), broken pool
(caught / replaced), SIGKILL of the parent in the middle of dispatching — plus SIGKILL / os._exit of
children that own semaphores.  After every step the content of /dev/shm/sem.loky-<pid>-* for the pids
of the scenario, the live trackers and their writer sets are compared with the Lean driver; at the end
also the trackers' "leaked" reports.  The oracle is written from the statement.
"""
from ..realproc.tt_engine import E3TreeProp, NSEMS, leak_tokens

PRIMS = ["Lock", "RLock", "Semaphore", "BoundedSemaphore", "Condition", "Event", "Queue", "SimpleQueue"]
ENDINGS = ["normal", "exception", "worker_crash", "broken_pool", "sigkill_parent"]
KILLISH = ("kill", "term", "osexit")
XSTEPS = ("xnew", "xrun", "xsleep", "xcrash", "xwait", "xshutdown", "xdrop", "xdispatch", "killworker",
          "killorphans")


def xbase(x):
    return 100 + 20 * x


def worker_copy_base(x, i):
    return 400 + 100 * x + 10 * i


class Prop(E3TreeProp):
    id = "C13"
    lean_modules = ["LokyModel.Props.C13"]
    budget = {"quick": 175, "thorough": 1750}
    n_cases = {"quick": 17, "thorough": 390}
    search_cases = {"quick": 10, "thorough": 40}
    rule = ("real process scenarios: 1-4 loky primitives of 8 kinds and 0-2 executors (plain / reusable, 1-3 workers) "
            "created in the root, 0-2 LokyProcess children receiving pickled copies and owning primitives themselves, "
            "some objects collected; ended by normal exit, uncaught exception, worker crash (SIGKILL/SIGTERM of a busy "
            "worker, error not caught), broken pool (task os._exit, caught, reusable executor replaced), SIGKILL of the "
            "parent mid-dispatch (then of its orphaned workers); children die by normal return, exception, os._exit, "
            "SIGTERM, SIGKILL. Compared with the Lean driver after every step: /dev/shm/sem.loky-<pid>-* per creating "
            "process, live trackers, writer sets; at the end the trackers' leak reports. Non-trivial = at least one "
            "executor or one child; distinct by history.")
    assumptions = [
        "a pipe reaches EOF exactly when its last write end is closed; a process that dies (SIGKILL included) closes its descriptors",
        "sem_open(O_CREAT|O_EXCL) with a fresh random name never collides (the code retries on FileExistsError)",
        "the tracker is not SIGKILLed (witness leak_when_tracker_killed) and no SIGKILL lands between sem_open and REGISTER "
        "inside SemLock.__init__ (witness leak_in_create_window): hypotheses of namespace_restored",
        "CPython collects an unreferenced object at once (reference counting): `del` + gc.collect() runs the SemLock finalizer",
    ]

    # ------------------------------------------------------------------ corpus
    def corpus(self):
        cs = []

        def add(*steps):
            cs.append({"steps": [["start"]] + [list(s) for s in steps] + [["end"]]})
        W2 = {"kind": "plain", "workers": 2, "ids": [50, 51]}
        R2 = {"kind": "reusable", "workers": 2, "ids": [60, 61]}
        # every primitive kind, created, half of them collected, parent exits normally
        add(*[("new", 0, i + 1, k) for i, k in enumerate(PRIMS)], ("del", 0, 1), ("del", 0, 5), ("del", 0, 7),
            ("exit", 0, "normal"))
        # copies in a child are collected / die with it; the owner is SIGKILLed afterwards
        add(("new", 0, 1, "Condition"), ("new", 0, 2, "Queue"), ("spawn", 0, 1, "loky", [[1, 21], [2, 22]]),
            ("del", 1, 21), ("new", 1, 3, "Event"), ("exit", 1, "kill"), ("exit", 0, "kill"))
        # executor, clean shutdown, uncaught exception afterwards
        add(("xnew", 0, 1, W2), ("xrun", 0, 1, {"n": 6}), ("xshutdown", 0, 1, {"wait": True}), ("xdrop", 0, 1),
            ("new", 0, 1, "Lock"), ("exit", 0, "exc"))
        # executor alive at a normal exit
        add(("new", 0, 1, "Event"), ("xnew", 0, 1, W2), ("xrun", 0, 1, {"n": 3}), ("exit", 0, "normal"))
        # worker crash by SIGKILL from outside, error not caught
        add(("xnew", 0, 1, W2), ("xsleep", 0, 1, {"n": 2}), ("killworker", 0, 1, 51, "kill"),
            ("xwait", 0, 1, {"raise": True}))
        # broken pool (task os._exit), caught, reusable executor replaced, normal exit
        add(("xnew", 0, 1, R2), ("xcrash", 0, 1), ("xnew", 0, 2, {"kind": "reusable", "workers": 1, "ids": [70], "replaces": 1}),
            ("xrun", 0, 2, {"n": 2}), ("xdrop", 0, 1), ("exit", 0, "normal"))
        # SIGKILL of the parent in the middle of dispatching, with standalone primitives alive
        add(("new", 0, 1, "Lock"), ("new", 0, 2, "Condition"), ("xnew", 0, 1, W2), ("xdispatch", 0, 1),
            ("exit", 0, "kill"), ("killorphans",))
        return cs

    # ------------------------------------------------------------------ generator
    def gen(self, rng, i):
        ending = ENDINGS[i % len(ENDINGS)] if rng.random() < 0.8 else rng.choice(ENDINGS)
        steps = [["start"]]
        owned = {0: []}          # member -> object groups it owns / holds
        next_obj = [1]
        next_copy = [21]
        children = []

        def new(p):
            o = next_obj[0]
            next_obj[0] += 1
            steps.append(["new", p, o, rng.choice(PRIMS)])
            owned[p].append(o)
        for _ in range(rng.choice([0, 1, 1, 2, 3, 4])):
            new(0)
        nchild = rng.choice([0, 0, 1, 1, 2])
        for c in range(1, nchild + 1):
            passing = []
            for o in owned[0]:
                if rng.random() < 0.5:
                    passing.append([o, next_copy[0]])
                    next_copy[0] += 1
            steps.append(["spawn", 0, c, rng.choice(["loky", "loky", "loky_init_main"]), passing])
            owned[c] = [b for _, b in passing]
            children.append(c)
            if rng.random() < 0.5:
                new(c)
        # some collections (owners and copies)
        for p in list(owned):
            for o in list(owned[p]):
                if rng.random() < 0.3:
                    steps.append(["del", p, o])
                    owned[p].remove(o)
        # executors
        need_exec = ending in ("worker_crash", "broken_pool", "sigkill_parent")
        execs = []
        nx = 1 if need_exec else rng.choice([0, 1, 1, 2])
        for x in range(1, nx + 1):
            w = rng.choice([1, 2, 2, 3])
            kind = "reusable" if (x == 1 and rng.random() < 0.4) else "plain"
            cfg = {"kind": kind, "workers": w, "ids": [50 + 10 * x + j for j in range(w)]}
            steps.append(["xnew", 0, x, cfg])
            execs.append([x, cfg, "up"])
            if rng.random() < 0.6:
                steps.append(["xrun", 0, x, {"n": rng.randint(1, 8)}])
        # some children end before the parent
        for c in list(children):
            if rng.random() < 0.5:
                steps.append(["exit", c, rng.choice(KILLISH + ("normal", "exc"))])
                children.remove(c)
        # a non-final executor may be shut down / dropped / left alone
        for e in execs[:-1] if need_exec else execs:
            r = rng.random()
            if r < 0.35:
                steps.append(["xshutdown", 0, e[0], {"wait": True, "kill": rng.random() < 0.3}])
                e[2] = "down"
                if rng.random() < 0.5:
                    steps.append(["xdrop", 0, e[0]])
            elif r < 0.5:
                if e[1]["kind"] == "reusable":     # the module-global singleton keeps it alive: shut it down first
                    steps.append(["xshutdown", 0, e[0], {"wait": True}])
                steps.append(["xdrop", 0, e[0]])
                e[2] = "down"
        # the ending
        if ending in ("normal", "exception"):
            for c in children:
                steps.append(["exit", c, rng.choice(KILLISH + ("normal", "exc"))])
            steps.append(["exit", 0, "normal" if ending == "normal" else "exc"])
        elif ending == "worker_crash":
            x, cfg, _ = execs[-1]
            for c in children:                # an exiting parent joins its live children first: they end before it
                steps.append(["exit", c, rng.choice(KILLISH + ("normal", "exc"))])
            steps.append(["xsleep", 0, x, {"n": cfg["workers"]}])
            steps.append(["killworker", 0, x, rng.choice(cfg["ids"]), rng.choice(["kill", "kill", "term"])])
            steps.append(["xwait", 0, x, {"raise": True}])     # the pool is observed once it has torn itself down
        elif ending == "broken_pool":
            x, cfg, _ = execs[-1]
            steps.append(["xcrash", 0, x])
            if cfg["kind"] == "reusable":
                w = rng.choice([1, 2])
                steps.append(["xnew", 0, x + 5, {"kind": "reusable", "workers": w,
                                                 "ids": [90 + j for j in range(w)], "replaces": x}])
                steps.append(["xrun", 0, x + 5, {"n": 3}])
                if rng.random() < 0.5:
                    steps.append(["xdrop", 0, x])
            elif rng.random() < 0.5:
                steps.append(["xshutdown", 0, x, {"wait": True}])
            for c in children:
                steps.append(["exit", c, rng.choice(KILLISH + ("normal", "exc"))])
            steps.append(["exit", 0, rng.choice(["normal", "normal", "exc"])])
        else:
            x, cfg, _ = execs[-1]
            steps.append(["xdispatch", 0, x])
            steps.append(["exit", 0, "kill"])
            order = list(children)
            rng.shuffle(order)
            for c in order:
                steps.append(["exit", c, rng.choice(KILLISH + ("normal", "exc"))])
            steps.append(["killorphans"])
        steps.append(["end"])
        return {"steps": steps}

    # ------------------------------------------------------------------ model
    def _exec_state(self, case, upto):
        """executor bookkeeping replayed over the first `upto` steps: x -> dict(workers alive, groups held), and
        per member the exit-lock groups of workers that died by themselves: their Process objects are never
        joined and linger in multiprocessing.process._children until that member starts its next process"""
        ex, linger = {}, {}
        for st in case["steps"][:upto]:
            k = st[0]
            if k == "xnew":
                cfg = st[3]
                linger[st[1]] = []
                if cfg.get("replaces") is not None and cfg["replaces"] in ex:
                    ex[cfg["replaces"]]["core"] = False
                ex[st[2]] = {"owner": st[1], "ids": list(cfg["ids"]), "alive": list(cfg["ids"]), "dead": [],
                             "core": True, "locks": list(range(len(cfg["ids"]))), "kind": cfg["kind"]}
            elif k == "spawn":
                linger[st[1]] = []
            elif k == "xcrash":
                e = ex[st[2]]
                if e["alive"]:
                    linger.setdefault(st[1], []).append(xbase(st[2]) + 3 + e["ids"].index(e["alive"][0]))
                e["alive"], e["locks"] = [], []
            elif k == "xwait":
                e = ex[st[2]]
                for w in e["dead"]:
                    linger.setdefault(st[1], []).append(xbase(st[2]) + 3 + e["ids"].index(w))
                e["alive"], e["locks"], e["dead"] = [], [], []
            elif k == "killworker":
                e = ex[st[2]]
                if st[3] in e["alive"]:
                    e["alive"].remove(st[3])
                    e["dead"].append(st[3])
            elif k in ("xshutdown", "xdrop"):
                e = ex.get(st[2])
                if e:
                    e["alive"], e["locks"], e["core"] = [], [], False
            elif k == "exit" and st[2] in ("normal", "exc", "int"):
                linger[st[1]] = []
                for e in ex.values():
                    if e["owner"] == st[1]:
                        e["alive"], e["locks"], e["core"] = [], [], False
            elif k == "killorphans":
                for e in ex.values():
                    e["alive"] = []
        return ex, linger

    def model_lines_of_step(self, case, st):
        k = st[0]
        idx = next(i for i, s in enumerate(case["steps"]) if s is st)
        ex, linger = self._exec_state(case, idx)
        if k in ("start", "end"):
            return [k]
        if k == "spawn":
            pairs = ",".join(f"{a}:{b}" for a, b in st[4]) or "-"
            return [f"del {st[1]} {g}" for g in linger.get(st[1], [])] + [f"spawn {st[1]} {st[2]} {st[3]} {pairs}"]
        if k == "new":
            return [f"new {st[1]} {st[2]} {NSEMS[st[3]]}"]
        if k in ("del", "killnew"):
            return [" ".join(str(x) for x in st)]
        if k == "exit":
            p, how = st[1], st[2]
            lines = []
            if how in ("normal", "exc", "int"):
                # atexit: the manager threads shut their pools down before the finalizers run
                for e in ex.values():
                    if e["owner"] == p:
                        lines += [f"exit {w} normal" for w in e["alive"]]
            return lines + [f"exit {p} {how}"]
        if k == "xnew":
            p, x, cfg = st[1], st[2], st[3]
            b = xbase(x)
            lines = []
            old = cfg.get("replaces")
            if old is not None and old in ex and ex[old]["core"]:
                lines += [f"del {p} {xbase(old)}", f"del {p} {xbase(old) + 1}", f"del {p} {xbase(old) + 2}"]
            lines += [f"new {p} {b} 1", f"new {p} {b + 1} 3", f"new {p} {b + 2} 2"]
            lines += [f"del {p} {g}" for g in linger.get(p, [])]       # first Process.start(): _cleanup()
            for i, wid in enumerate(cfg["ids"]):
                cb = worker_copy_base(x, i)
                lines.append(f"new {p} {b + 3 + i} 1")
                lines.append(f"spawn {p} {wid} loky {b}:{cb},{b + 1}:{cb + 1},{b + 2}:{cb + 2},{b + 3 + i}:{cb + 3}")
            return lines
        if k in ("xrun", "xsleep", "xdispatch"):
            return [f"info {st[1]}"]
        if k == "killworker":
            return [f"exit {st[3]} kill"]
        if k in ("xcrash", "xwait"):
            p, x = st[1], st[2]
            e = ex[x]
            lines = [f"exit {w} kill" for w in e["alive"]]
            if k == "xcrash":
                stay = [e["ids"].index(e["alive"][0])] if e["alive"] else []
            else:
                stay = [e["ids"].index(w) for w in e["dead"]]
            lines += [f"del {p} {xbase(x) + 3 + i}" for i in e["locks"] if i not in stay]
            if k == "xwait" and st[3].get("raise"):
                for e2 in ex.values():
                    if e2["owner"] == p and e2 is not e:
                        lines += [f"exit {w} normal" for w in e2["alive"]]
                return lines + [f"exit {p} exc"]
            return lines + [f"info {p}"]
        if k in ("xshutdown", "xdrop"):
            p, x = st[1], st[2]
            e = ex.get(x)
            lines = []
            if e:
                how = "kill" if (k == "xshutdown" and st[3].get("kill")) else "normal"
                lines += [f"exit {w} {how}" for w in e["alive"]]
                lines += [f"del {p} {xbase(x) + 3 + i}" for i in e["locks"]]
                if e["core"]:
                    lines += [f"del {p} {xbase(x)}", f"del {p} {xbase(x) + 1}", f"del {p} {xbase(x) + 2}"]
            return lines + [f"info {p}"]
        if k == "killorphans":
            lines = []
            for e in ex.values():
                lines += [f"exit {w} kill" for w in e["alive"]]
            return lines + ["end"]
        raise ValueError(st)

    def canon_model(self, case, raw):
        lines = super().canon_model(case, raw)
        return [self._mask(st, l) for st, l in zip(case["steps"], lines)]

    def canon_real(self, case, out):
        lines = super().canon_real(case, out)
        return [self._mask(st, l) for st, l in zip(case["steps"], lines)]

    @staticmethod
    def _mask(st, line):
        import re
        if st[0] in XSTEPS or st[0] == "exit":
            line = re.sub(r"trk=\S+ child=\S+ warn=\S+", "trk=- child=- warn=-", line)
        if st[0] == "killworker":
            # the pool is tearing itself down concurrently: observed at the following xwait
            line = "(not compared)"
        return line

    # ------------------------------------------------------------------ oracle (from the statement)
    def oracle(self, case, out):
        obs = out["obs"]
        steps = case["steps"]
        # 1. objects collected by their owner: the names disappear at once
        names_of = {}
        for st, o in zip(steps, obs):
            act = o.get("act") or {}
            if o.get("child_died_at_startup"):
                return f"step {st}: the child ended before it could run (start-up failed)"
            if act.get("ok") is False and st[0] not in ("xwait",):
                return f"step {st}: raised {act.get('exc')}: {act.get('msg')}"
            if st[0] == "new":
                names_of[(st[1], st[2])] = [n.lstrip("/") for n in act.get("names", [])]
                have = {n for v in o["sems"].values() for n in v}
                missing = [n for n in names_of[(st[1], st[2])] if "sem." + n not in have]
                if missing:
                    return f"step {st}: created semaphores are not in /dev/shm: {missing}"
            if st[0] == "del" and (st[1], st[2]) in names_of:
                have = {n for v in o["sems"].values() for n in v}
                left = [n for n in names_of.pop((st[1], st[2])) if "sem." + n in have]
                if left:
                    return f"step {st}: the owning object was collected but its semaphores are still there: {left}"
            if st[0] == "exit" or (st[0] == "xwait" and st[3].get("raise")) or st[0] == "killnew":
                for key in [k for k in names_of if k[0] == st[1]]:
                    names_of.pop(key)
            # an owner that is alive and still holds the object: its semaphores must not have been unlinked
            # by anybody else (a child collecting or dying with an unpickled copy, a tracker sweeping early)
            have = {n for v in o["sems"].values() for n in v}
            for (p, ob), names in names_of.items():
                gone = [n for n in names if "sem." + n not in have]
                if gone:
                    return (f"step {st}: semaphores {gone} of object {ob} were unlinked although their owner "
                            f"(member {p}) is alive and still holds the object")
            if st[0] in ("xshutdown",) and (st[3] or {}).get("wait"):
                pass
        # 2. after the tree has ended and the trackers have finished: the name space is back to what it was
        last = obs[-1]
        if last["sems"]:
            return (f"after the end of the tree {sum(len(v) for v in last['sems'].values())} named semaphores of its "
                    f"processes are left in /dev/shm: {dict((k, v[:3]) for k, v in last['sems'].items())}")
        if out.get("swept_by_runner"):
            return f"semaphores left behind: {out['swept_by_runner'][:4]}"
        # 3. no 'leaked' report when everything was properly released, i.e. nobody was killed while owning objects
        abrupt = False
        for st in steps:
            if st[0] == "exit" and st[2] in KILLISH:
                abrupt = True
            if st[0] in ("killnew",):
                abrupt = True
        leaks = [t for t in leak_tokens(last.get("stderr")) if t.startswith("S")]
        if leaks and not abrupt:
            return (f"every owner ended by a normal or exception exit (finalizers ran), yet the tracker reported leaked "
                    f"semlocks: {leaks}")
        return None

    def nontrivial(self, case, out):
        ks = [s[0] for s in case["steps"]]
        return "xnew" in ks or "spawn" in ks

    def classify(self, case, out):
        ks = []
        steps = case["steps"]
        kinds = [s[0] for s in steps]
        if "xwait" in kinds and any(s[0] == "xwait" and s[3].get("raise") for s in steps):
            ks.append("ending=worker_crash")
        elif "xdispatch" in kinds:
            ks.append("ending=sigkill_parent")
        elif "xcrash" in kinds:
            ks.append("ending=broken_pool")
        else:
            last_exit = [s for s in steps if s[0] == "exit" and s[1] == 0]
            ks.append("ending=" + ("exception" if last_exit and last_exit[-1][2] == "exc" else
                                   "normal" if last_exit and last_exit[-1][2] == "normal" else "other"))
        for s in steps:
            if s[0] == "new":
                ks.append("prim=" + s[3])
            elif s[0] == "xnew":
                ks.append("executor=" + s[3]["kind"])
            elif s[0] == "exit" and s[1] != 0:
                ks.append("child-death=" + s[2])
            elif s[0] == "spawn" and s[4]:
                ks.append("pickled-to-child")
        return ks

    def shrink_candidates(self, case):
        steps = case["steps"]
        for i, s in enumerate(steps):
            if s[0] in ("xrun", "del") or (s[0] == "new" and not any(
                    (t[0] == "del" and t[2] == s[2]) or (t[0] == "spawn" and any(a == s[2] for a, _ in t[4]))
                    for t in steps)):
                yield {"steps": steps[:i] + steps[i + 1:]}

    def attribute(self, case, out, bad, known):
        # D11-style finding: a SIGKILL forced between sem_open and REGISTER
        if any(s[0] == "killnew" for s in case["steps"]):
            for f in known:
                if f.get("class") == "create-window" or "sem_open and REGISTER" in f.get("what", ""):
                    return f["id"]
        return None


PROP = Prop()
