"""E2 — in-process differential engine (DESIGN.md §3.2).

A property module subclasses `E2Prop` and provides a generator of JSON-able cases, the lines
that drive the Lean model for a case, the implementation's canonical output for the same
case, and an oracle written from the property statement (independent of the Lean model).
"""
import json
import multiprocessing
import os
import traceback

from . import common as C


def _chunk(xs, n):
    k = max(1, (len(xs) + n - 1) // n)
    return [xs[i:i + k] for i in range(0, len(xs), k)]


_PROP = None


def _work(chunk):
    out = []
    for case in chunk:
        try:
            o = _PROP.impl(case)
        except Exception:
            o = ["HARNESS-EXC " + traceback.format_exc()[-300:].replace("\n", " | ")]
        try:
            bad = _PROP.oracle(case, o)
        except Exception:
            bad = "ORACLE-EXC " + traceback.format_exc()[-300:].replace("\n", " | ")
        out.append((o, bad))
    return out


class E2Prop:
    id = "C00"
    name = "e2"
    engine = "E2"
    lean_modules = []
    driver = None
    budget = {"quick": 170, "thorough": 1700}
    n_cases = {"quick": 2000, "thorough": 50000}
    search_cases = {"quick": 4000, "thorough": 100000}
    parallel = True
    rule = ""
    assumptions = []

    # ---- to be provided -------------------------------------------------------------
    def corpus(self):
        return []

    def gen(self, rng, i):
        raise NotImplementedError

    def model_lines(self, case):
        raise NotImplementedError

    def impl(self, case):
        raise NotImplementedError

    def oracle(self, case, out):
        return None

    def nontrivial(self, case, out):
        return True

    def classify(self, case, out):
        return []

    def shrink_candidates(self, case):
        return []

    # ---- engine ---------------------------------------------------------------------
    def _run_impl(self, cases):
        global _PROP
        _PROP = self
        if not self.parallel or len(cases) < 64:
            return _work(cases)
        n = min(16, os.cpu_count() or 1)
        ctx = multiprocessing.get_context("fork")
        with ctx.Pool(n) as pool:
            parts = pool.map(_work, _chunk(cases, n * 4))
        return [x for p in parts for x in p]

    def _run_model(self, cases, corr):
        drv = C.Driver(self.driver)
        try:
            drv.ensure()
        except C.Infra as e:
            corr.model_error = str(e)
            return None
        lines, spans = [], []
        for c in cases:
            ls = self.model_lines(c)
            spans.append((len(lines), len(ls)))
            lines += ls
        outs = drv.run(lines) if lines else []
        return [outs[a:a + n] for a, n in spans]

    def evaluate(self, cases, corr, with_model=True):
        impl = self._run_impl(cases)
        model = self._run_model(cases, corr) if with_model else None
        for i, case in enumerate(cases):
            out, bad = impl[i]
            corr.evaluations += 1
            for k in self.classify(case, out):
                corr.count(k)
            if self.nontrivial(case, out):
                corr.nontrivial(case)
            if bad:
                corr.failures.append({"input": case, "impl": out, "what": bad})
            if model is not None and model[i] != out:
                corr.disagreements.append({"input": case, "model": model[i], "impl": out})
        return impl, model

    def correspondence(self, ctx, corr):
        corr.rule = self.rule
        cases = list(self.corpus())
        ncorp = len(cases)
        n = self.n_cases[ctx.tier]
        rng = C.rng_for(ctx.seed, self.id, "gen")
        cases += [self.gen(rng, i) for i in range(n)]
        impl, model = self.evaluate(cases, corr)
        corr.extra["corpus_cases"] = ncorp
        k = min(4, len(cases))
        for j in [0, len(cases) // 3, 2 * len(cases) // 3, len(cases) - 1][:k]:
            corr.samples.append({"input": cases[j], "impl": impl[j][0],
                                 "model": None if model is None else model[j]})
        corr.failures = [self.shrink(f, "oracle") for f in corr.failures[:3]] + corr.failures[3:]
        corr.disagreements.sort(key=lambda d: len(json.dumps(d["input"])))

    def shrink(self, f, kind):
        """greedy shrink of a failing case, keeping the oracle failure"""
        cur = f
        for _ in range(200):
            for cand in self.shrink_candidates(cur["input"]):
                try:
                    out = self.impl(cand)
                    bad = self.oracle(cand, out)
                except Exception:
                    continue
                if bad:
                    cur = {"input": cand, "impl": out, "what": bad}
                    break
            else:
                break
        return cur

    def search(self, ctx, corr, broken):
        """model/correspondence broken and no oracle failure so far: look harder"""
        cands = [d["input"] for d in corr.disagreements[:200]]
        extra = []
        for c in cands:
            extra += list(self.shrink_candidates(c))[:20]
        rng = C.rng_for(ctx.seed, self.id, "search")
        more = [self.gen(rng, i) for i in range(self.search_cases[ctx.tier])]
        c2 = C.Corr()
        self.evaluate(cands + extra + more, c2, with_model=False)
        corr.extra["search_cases"] = c2.evaluations
        if c2.failures:
            return self.shrink(c2.failures[0], "oracle")
        return None

    def replay(self, ctx, data):
        res = []
        for f in data.get("failing", []):
            out = self.impl(f["input"])
            bad = self.oracle(f["input"], out)
            res.append({"input": f["input"], "impl": out, "what": bad})
        return {"fails": any(r["what"] for r in res), "results": res}

    def replay_finding(self, ctx, finding):
        w = finding.get("witness")
        if w is None:
            return {"fails": False}
        out = self.impl(w)
        bad = self.oracle(w, out)
        return {"fails": bool(bad), "input": w, "impl": out, "what": bad}
